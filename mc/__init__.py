from mc import vclock  # noqa: F401  (must run before bellows is imported: see vclock.py)
