"""Dispatcher: ./check <ID> [--tier quick|thorough] [--replay file]."""
from __future__ import annotations

import argparse
import importlib
import json
import logging
import os
import sys
import traceback
import warnings


def quiet() -> None:
    # bellows logs with %r formatting of frames on every step; silence everything
    logging.disable(logging.CRITICAL)
    warnings.simplefilter("ignore")


def main() -> int:
    ap = argparse.ArgumentParser()
    ap.add_argument("prop")
    ap.add_argument("--tier", default=os.environ.get("VERIF_TIER", "quick"), choices=["quick", "thorough"])
    ap.add_argument("--replay", default=None)
    args = ap.parse_args()
    quiet()
    prop = args.prop.upper()
    import bellows

    repo = os.environ.get("VERIF_REPO", "/repo").rstrip("/") + "/"
    if not os.path.abspath(bellows.__file__).startswith(repo):
        print(f"internal error: bellows imported from {bellows.__file__}, not {repo}", file=sys.stderr)
        return 2
    try:
        mod = importlib.import_module(f"mc.checks.{prop.lower()}")
    except ModuleNotFoundError as e:
        print(f"internal error: no check module for {prop}: {e}", file=sys.stderr)
        return 2
    # A check must end.  If a code change makes the harness spin (a search that no longer closes, a buffer that grows for
    # ever) it is stopped here and reported as an internal error (exit 2) rather than hanging its caller.
    import signal

    limit = int(os.environ.get("VERIF_TIME_LIMIT_S", "1800" if args.tier == "quick" else "28800"))

    def _too_long(signum, frame):
        raise TimeoutError(f"check {prop} exceeded its time limit of {limit} s")

    signal.signal(signal.SIGALRM, _too_long)
    signal.alarm(limit)
    try:
        if args.replay:
            with open(args.replay) as f:
                data = json.load(f)
            return mod.replay(data)
        return mod.main(args.tier)
    except SystemExit:
        raise
    except BaseException as e:
        text = traceback.format_exc() + "\n" + str(e)
        sys.stderr.write(text + "\n")
        # An exception that was raised *inside bellows* (innermost frame under <repo>/bellows) and that no harness
        # expected is misbehaviour of the code under test, not of the harness: report it as a violation.  Never
        # happens on the unchanged tree; keeps a code change that makes bellows crash from hiding behind exit 2.
        import re

        # A check that aborts (vacuity floor, canon validation, closure not reached, time limit) AFTER it has already recorded
        # violations reports those violations: the abort is then a consequence of the misbehaviour, not a harness fault.
        from mc import report as _report

        cur = _report.CURRENT
        if cur is not None and not args.replay and cur.prop == prop:
            known = _report.known_findings(prop)
            if any(v.key not in known for v in cur.violations):
                if not cur.coverage:
                    cur.coverage = {"explanation": "the check aborted after recording violations: " + str(e)[:200], "evaluations": len(cur.violations),
                                    "distinct_nontrivial": max(2, len(cur.violations))}
                cur.notes.append("aborted after recording violations: " + str(e)[:300])
                return cur.finish()
        files = re.findall(r'File "([^"]+)", line (\d+), in (\S+)', text)
        if files and files[-1][0].startswith(repo + "bellows/") and not args.replay:
            from mc import report

            where = f"{os.path.relpath(files[-1][0], repo)}:{files[-1][2]}"
            last = [l for l in text.strip().splitlines() if l and not l.startswith(" ")][-1][:120]
            rep = report.Report(prop, args.tier, "other")
            rep.coverage = {"explanation": "the check aborted because bellows raised an unexpected exception", "evaluations": 1, "distinct_nontrivial": 2}
            rep.add_violation(f"{prop}|crash|{where}", f"bellows raised an unexpected exception in {where}: {last}", {"world": "crash", "traceback": text[-3000:]})
            return rep.finish()
        print(f"internal error in check {prop}", file=sys.stderr)
        return 2
    finally:
        from mc import explore

        explore.close_pool()


if __name__ == "__main__":
    sys.exit(main())
