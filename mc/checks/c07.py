"""C07 -- EZSP frame headers and command schemas form a consistent codec in every version.

Complete enumeration of (version, command) pairs x a finite, type-directed family of value
tuples.  Every case is a real ``command()`` call on a hand-stepped loop: the bytes handed to
the gateway are compared with an independently written header for that version followed by
the declared field serialisations in declared order; the response built from a generated
value tuple is fed back through ``EZSP.frame_received`` and must come out of the call
unchanged; every response/callback schema is also fed as an unsolicited frame and must reach
the registered callback unchanged.  Positional and keyword call forms must agree.
"""
from __future__ import annotations

import asyncio
import inspect

from mc import explore, report, gen_values as gv
from mc.env import ezspenv
from mc.vloop import VLoop


def eq_values(schema, got, want) -> bool:
    """Same values and same wire image."""
    try:
        if isinstance(schema, dict):
            if len(got) != len(want):
                return False
            for (n, ty), g, w in zip(schema.items(), got, want):
                if g != w or ty(g).serialize() != ty(w).serialize():
                    return False
            return True
        if inspect.isclass(schema):
            return got == want and got.serialize() == want.serialize()
        return list(got) == list(want)
    except Exception:
        return False


def tuples_for(schema, sweep):
    """[(label, values)] ; for a struct-class schema the 'values' is [instance]."""
    if isinstance(schema, dict):
        if not schema:
            return [("empty", [])]
        return gv.schema_tuples(schema, sweep=sweep)
    if inspect.isclass(schema):
        return [(lab, [v]) for lab, v in gv.variants(schema)]
    return None  # not a usable schema


class Ctx:
    def __init__(self, version):
        self.loop = VLoop().enter()
        self.ezsp, self.gw = ezspenv.make_ezsp(self.loop, version)
        self.h = self.ezsp._protocol
        self.version = version
        self.cb_log = []
        self.ezsp.add_callback(lambda name, args: self.cb_log.append((name, args)))
        self.seq = 0

    def close(self):
        self.loop.shutdown()


def run_version(args):
    version, sweep = args
    import logging

    logging.disable(logging.CRITICAL)
    import bellows.types as t

    viol = []          # (key, message, replay)
    stats = {"pairs": 0, "calls": 0, "callbacks": 0, "tuples": 0, "sample": None}
    cls = ezspenv.handler_class(version)
    # (a) frame id -> command injective
    by_id = {}
    for name, (cid, tx, rx) in cls.COMMANDS.items():
        if cid in by_id:
            viol.append((f"C07|duplicate-id|v{version}", f"v{version}: frame ID {cid:#06x} belongs to both {by_id[cid]} and {name}",
                         {"version": version, "command": name}))
        by_id[cid] = name
    ctx = Ctx(version)
    try:
        for name, (cid, tx, rx) in cls.COMMANDS.items():
            stats["pairs"] += 1
            txs = tuples_for(tx, sweep)
            rxs = tuples_for(rx, sweep)
            if txs is None or rxs is None:
                viol.append((f"C07|unusable-schema|{name}", f"v{version} {name}: schema is neither a field dict nor a struct class "
                             f"(tx={tx!r}, rx={rx!r}); the command cannot be called / its response cannot be decoded",
                             {"version": version, "command": name}))
                # demonstrate on the real code
                continue
            n = max(len(txs), len(rxs))
            for k in range(n):
                tlab, tvals = txs[k % len(txs)]
                rlab, rvals = rxs[k % len(rxs)]
                stats["tuples"] += 1
                for form in ("positional", "keyword"):
                    if name == "invalidCommand":
                        continue  # the NCP's "no such command" answer: not callable by design, decoded as an unsolicited frame below
                    if form == "keyword" and (not isinstance(tx, dict) or len(tx) == 0):
                        continue
                    if form == "keyword" and k >= 3:
                        continue
                    msg = one_call(ctx, t, version, name, cid, tx, rx, tvals, rvals, form)
                    stats["calls"] += 1
                    if msg:
                        rule = msg.split(":")[0]
                        viol.append((f"C07|{rule}|{name}|{form}", f"v{version} {name} [{tlab}/{rlab}, {form}]: {msg}",
                                     {"version": version, "command": name, "tx": tlab, "rx": rlab, "form": form, "k": k}))
                # every rx schema as an unsolicited frame (callback path)
                msg = one_callback(ctx, t, version, name, cid, rx, rvals)
                stats["callbacks"] += 1
                if msg:
                    rule = msg.split(":")[0]
                    viol.append((f"C07|{rule}|{name}|callback", f"v{version} {name} [{rlab}, unsolicited]: {msg}",
                                 {"version": version, "command": name, "rx": rlab, "k": k}))
                if stats["sample"] is None and tvals and rvals:
                    stats["sample"] = {"version": version, "command": name, "tx": repr(tvals)[:120], "rx": repr(rvals)[:120]}
        concurrent_cases(ctx, t, version, viol, stats)
        history_cases(ctx, t, version, viol, stats)
    finally:
        ctx.close()
    return version, viol, stats


def pair_call(ctx, t, version, name, cid, tx, rx, tv1, tv2, rv1, rv2):
    """Two calls of the SAME command with different arguments (keyword form) in flight together: each must emit its own frame
    (own sequence number, own arguments, in the order of the calls) and get the values of its own response."""
    loop, gw = ctx.loop, ctx.gw
    n0 = len(gw.sent)
    tasks = []
    for tv in (tv1, tv2):
        tasks.append(loop.create_task(ctx.ezsp._command(name, **dict(zip(tx.keys(), tv)))))
    loop.settle()
    out = None
    for k, (tv, rv) in enumerate(((tv1, rv1), (tv2, rv2))):
        if len(gw.sent) < n0 + k + 1:
            out = out or f"concurrent: call #{k + 1} of two concurrent {name} calls with different arguments emitted no frame of its own"
            break
        seq = ctx.seq
        ctx.seq = (ctx.seq + 1) % 256
        got = gw.sent[n0 + k][1]
        want = ezspenv.enc_request_hdr(version, seq, cid) + expected_payload(tx, tv)
        if got != want:
            out = out or f"concurrent: call #{k + 1} sent {got.hex()[:60]}, expected {want.hex()[:60]}"
        try:
            ctx.ezsp.frame_received(ezspenv.enc_response_hdr(version, seq, cid) + ezspenv.encode_values(rx, rv))
        except Exception as e:  # noqa
            out = out or f"concurrent: receive raised {type(e).__name__}: {e}"
        loop.settle()
    for k, (task, rv) in enumerate(zip(tasks, (rv1, rv2))):
        if not task.done():
            task.cancel()
            loop.settle()
            out = out or f"concurrent: call #{k + 1} did not complete on its own response"
        elif task.cancelled() or task.exception() is not None:
            out = out or f"concurrent: call #{k + 1} ended with {task.exception() if not task.cancelled() else 'cancellation'!r}"
        elif not eq_values(rx, task.result(), rv if isinstance(rx, dict) else rv[0]):
            out = out or f"concurrent: call #{k + 1} returned {task.result()!r:.80}, its response carried {rv!r:.80}"
    # resynchronise the expected sequence number with what was really sent
    ctx.seq = (ctx.seq + (len(gw.sent) - n0) - 2) % 256 if len(gw.sent) - n0 != 2 else ctx.seq
    return out


def concurrent_cases(ctx, t, version, viol, stats):
    cls = ezspenv.handler_class(version)
    for name, (cid, tx, rx) in cls.COMMANDS.items():
        if not isinstance(tx, dict) or not tx or name == "invalidCommand":
            continue
        txs, rxs = tuples_for(tx, False), tuples_for(rx, False)
        if not txs or not rxs:
            continue
        a = txs[0][1]
        b = next((tv for _, tv in txs[1:] if expected_payload(tx, tv) != expected_payload(tx, a)), None)
        if b is None:
            continue
        rv1 = rxs[0][1]
        rv2 = next((rv for _, rv in rxs[1:] if ezspenv.encode_values(rx, rv) != ezspenv.encode_values(rx, rv1)), rv1)
        msg = pair_call(ctx, t, version, name, cid, tx, rx, a, b, rv1, rv2)
        stats["calls"] += 2
        if msg:
            viol.append((f"C07|concurrent|{name}", f"v{version} {name}: {msg}", {"version": version, "command": name, "history": "concurrent"}))
            ctx.seq = ctx.h._seq if hasattr(ctx.h, "_seq") else ctx.seq
            if sum(1 for v in viol if v[0].startswith("C07|concurrent")) > 5:
                break


HISTORY_COMMANDS = ["nop", "version", "getValue", "getEui64", "getConfigurationValue", "echo"]


def history_cases(ctx, t, version, viol, stats):
    """The codec on an EZSP object with a history: (1) a command whose reply was lost (time-out), then more than 256 further
    calls -- every one must still carry its own next sequence number and complete on the reply under it; (2) a reset of the
    same EZSP object -- the commands used before must now be framed in the legacy layout by the fresh handler, and in the
    version's own layout again after the handler is switched back."""

    def simple(ver, name, tag):
        cls = ezspenv.handler_class(ver)
        if name not in cls.COMMANDS:
            return
        cid, tx, rx = cls.COMMANDS[name]
        txs, rxs = tuples_for(tx, False), tuples_for(rx, False)
        if not txs or not rxs:
            return
        msg = one_call(ctx, t, ver, name, cid, tx, rx, txs[0][1], rxs[0][1], "positional")
        stats["calls"] += 1
        if msg:
            viol.append((f"C07|history|{tag}|{msg.split(':')[0]}", f"v{version} {name} {tag}: {msg}", {"version": version, "command": name, "history": tag}))
        return msg

    # (1) lost reply, then a full turn of the sequence numbers
    n0 = len(ctx.gw.sent)
    task = ctx.loop.create_task(ctx.ezsp._command("nop"))
    ctx.loop.settle()
    if len(ctx.gw.sent) == n0 + 1:
        ctx.seq = (ctx.seq + 1) % 256
        ctx.loop.run_until_idle(horizon=ctx.loop.time() + 60.0)
        if not task.done():
            task.cancel()
            ctx.loop.settle()
        elif not task.cancelled():
            task.exception()
        for k in range(300):
            if simple(version, HISTORY_COMMANDS[k % len(HISTORY_COMMANDS)], "after a lost reply"):
                break
    # (2) reset of the same EZSP object: legacy framing by a fresh handler, then the version's own layout again
    rt = ctx.loop.create_task(ctx.ezsp.reset())
    ctx.loop.run_until_idle(horizon=ctx.loop.time() + 30.0)
    if not rt.done() or rt.exception() is not None:
        viol.append(("C07|history|reset", f"v{version}: EZSP.reset() on the simulated gateway did not complete: {rt!r}", {"version": version, "command": "nop", "history": "reset"}))
        return
    ctx.seq = 0
    for name in HISTORY_COMMANDS:
        if simple(4, name, "after a reset of the same EZSP object (legacy layout expected)"):
            break
    sw = getattr(ctx.ezsp, "_switch_protocol_version", None)
    if sw is not None and version != 4:
        sw(version)
        ctx.seq = 0
        for name in HISTORY_COMMANDS:
            if simple(version, name, "after reset and re-negotiation on the same EZSP object"):
                break


def expected_payload(tx, tvals):
    if isinstance(tx, dict):
        return b"".join(ty(v).serialize() for (n, ty), v in zip(tx.items(), tvals))
    return tvals[0].serialize()


def one_call(ctx, t, version, name, cid, tx, rx, tvals, rvals, form):
    loop, gw = ctx.loop, ctx.gw
    n0 = len(gw.sent)
    try:
        if not isinstance(tx, dict):
            coro = ctx.ezsp._command(name, *[getattr(tvals[0], f.name) for f in tx.fields])
        elif form == "positional":
            coro = ctx.ezsp._command(name, *tvals)
        else:
            kw = dict(zip(tx.keys(), tvals))
            coro = ctx.ezsp._command(name, **dict(reversed(list(kw.items()))))
    except Exception as e:
        return f"call-raised: {type(e).__name__}: {e}"
    task = loop.create_task(coro)
    loop.settle()
    seq = ctx.seq
    if len(gw.sent) != n0 + 1:
        exc = task.exception() if task.done() and not task.cancelled() else None
        if not task.done():
            task.cancel()
            loop.settle()
        return f"call-raised: no frame was sent ({type(exc).__name__ if exc else 'pending'}: {exc})"
    ctx.seq = (ctx.seq + 1) % 256
    got = gw.sent[-1][1]
    want = ezspenv.enc_request_hdr(version, seq, cid) + expected_payload(tx, tvals)
    out = None
    if got != want:
        hl = ezspenv.hdr_len(version)
        if got[:hl] != want[:hl]:
            out = f"header: sent {got[:hl].hex()}, expected {want[:hl].hex()} (seq {seq}, id {cid:#06x})"
        else:
            out = f"payload: sent {got[hl:].hex()[:80]}, expected {want[hl:].hex()[:80]}"
    # answer it
    payload = ezspenv.encode_values(rx, rvals)
    frame = ezspenv.enc_response_hdr(version, seq, cid) + payload
    try:
        ctx.ezsp.frame_received(frame)
    except Exception as e:
        return out or f"receive-raised: {type(e).__name__}: {e}"
    loop.settle()
    if not task.done():
        task.cancel()
        loop.settle()
        return out or "response: the call did not complete on its own response"
    if task.exception() is not None:
        return out or f"response: the call raised {type(task.exception()).__name__}: {task.exception()}"
    res = task.result()
    if not eq_values(rx, res, rvals if isinstance(rx, dict) else rvals[0]):
        return out or f"response: decoded {res!r:.100}, encoded {rvals!r:.100}"
    if isinstance(rx, dict):
        try:
            _, rest = t.deserialize_dict(payload, rx)
        except Exception as e:
            return out or f"response: library decode raised {e}"
        if rest:
            return out or f"response: {len(rest)} trailing bytes"
    return out


def one_callback(ctx, t, version, name, cid, rx, rvals):
    if name == "invalidCommand":
        pass
    ctx.cb_log.clear()
    payload = ezspenv.encode_values(rx, rvals)
    # a sequence number that no call is waiting for
    frame = ezspenv.enc_response_hdr(version, (ctx.seq + 100) % 256, cid, callback=True) + payload
    try:
        ctx.ezsp.frame_received(frame)
    except Exception as e:
        return f"receive-raised: {type(e).__name__}: {e}"
    if len(ctx.cb_log) != 1:
        return f"callback: {len(ctx.cb_log)} callback invocations for one well-formed frame"
    cname, cargs = ctx.cb_log[0]
    if cname != name:
        return f"callback: delivered as {cname}"
    if not eq_values(rx, cargs, rvals if isinstance(rx, dict) else rvals[0]):
        return f"callback: decoded {cargs!r:.100}, encoded {rvals!r:.100}"
    return None


def enum_types():
    """Every integer enumeration (flags excluded) reachable from a command schema of any version: top-level fields, struct fields
    and list items, recursively."""
    seen, out, todo = set(), [], []
    for v in ezspenv.VERSIONS:
        for cid, tx, rx in ezspenv.handler_class(v).COMMANDS.values():
            for sch in (tx, rx):
                todo += list(sch.values()) if isinstance(sch, dict) else [sch] if inspect.isclass(sch) else []
    while todo:
        ty = todo.pop()
        if not inspect.isclass(ty) or ty in seen:
            continue
        seen.add(ty)
        if gv.is_flag(ty):
            continue
        if gv.is_enum(ty):
            out.append(ty)
        elif gv.is_struct(ty):
            try:
                todo += [f.type for f in ty.fields]
            except Exception:  # noqa
                pass
        it = gv.item_type(ty)
        if it is not None:
            todo.append(it)
    return sorted(out, key=lambda c: c.__name__)


def enum_fidelity(rep):
    """Leaf codec of every enumeration in the schemas: each value of the underlying integer range (all of them up to 16 bits;
    the 0 / 1 / 2^k +- 1 / maximum boundaries and every defined member above) decodes to something whose numeric value is the
    one on the wire, consumes exactly its own bytes, and encodes back to those bytes -- named or not."""
    n = 0
    types = enum_types()
    for ty in types:
        bits, _ = gv._int_info(ty)
        if not bits or bits % 8:
            continue
        size = bits // 8
        if bits <= 16:
            cands = range(1 << bits)
        else:
            cands = sorted({0, 1, 2, (1 << bits) - 1, (1 << bits) - 2} | {(1 << k) + d for k in range(1, bits) for d in (-1, 0, 1)}
                           | {int(m) for m in ty})
        bad = None
        for c in cands:
            raw = int(c).to_bytes(size, "little")
            n += 1
            try:
                v, rest = ty.deserialize(raw + b"\xa5")
                if int(v) != c or rest != b"\xa5":
                    bad = f"{raw.hex()} decodes to {v!r} (numeric value {int(v):#x}), rest {bytes(rest).hex()}"
                elif bytes(v.serialize()) != raw:
                    bad = f"{raw.hex()} decodes to {v!r}, which encodes to {bytes(v.serialize()).hex()}"
                elif bytes(ty(c).serialize()) != raw:
                    bad = f"{ty.__name__}({c:#x}) encodes to {bytes(ty(c).serialize()).hex()}"
            except Exception as e:  # noqa
                bad = f"{raw.hex()}: {type(e).__name__}: {e}"
            if bad:
                break
        if bad:
            rep.add_violation(f"C07|enum|{ty.__name__}", f"enumeration {ty.__name__}: {bad}",
                              {"world": "c07", "kind": "enum", "type": ty.__name__, "value": int(c)})
    if len(types) < 30:
        raise explore.InternalError(f"C07 enum pass vacuous: {len(types)} enumeration types found")
    return len(types), n


def main(tier: str) -> int:
    rep = report.Report("C07", tier, "exploration")
    n_enum_types, n_enum_values = enum_fidelity(rep)
    sweep = tier != "quick"
    jobs = [(v, sweep) for v in ezspenv.VERSIONS]
    results = list(explore.pool().imap_unordered(run_version, jobs, chunksize=1))
    results.sort(key=lambda r: r[0])
    tot = {"pairs": 0, "calls": 0, "callbacks": 0, "tuples": 0}
    samples = []
    for version, viol, stats in results:
        for k in tot:
            tot[k] += stats[k]
        if stats["sample"]:
            samples.append(stats["sample"])
        for key, msg, rp in viol:
            rep.add_violation(key, msg, {"world": "c07", **rp})
    if tot["pairs"] < 2000 or tot["calls"] < 10000:
        raise explore.InternalError(f"C07 vacuous: {tot}")
    rep.coverage = {
        "evaluations": tot["calls"] + tot["callbacks"],
        "distinct_nontrivial": tot["tuples"],
        "version_command_pairs": tot["pairs"],
        "enum_types": n_enum_types, "enum_values_round_tripped": n_enum_values,
        "command_calls": tot["calls"],
        "unsolicited_frames": tot["callbacks"],
        "versions": ezspenv.VERSIONS,
        "exhaustive": True,
        "rule": "every command of every version x value tuples {all-min, all-max, all-mid, one undefined enum value per enum field, every variable-length field empty and "
                "maximal" + ("; thorough: every variant of every field on the all-mid background" if sweep else "") + "}; positional and keyword (reversed order) call forms; "
                "each rx schema fed both as the pending call's response and as an unsolicited frame; non-trivial = distinct (version, command, tuple)",
        "samples": samples[:4],
    }
    rep.assumptions = [
        "header layouts are typed from UG100 in mc/env/ezspenv.py; payload expectations use each declared field type's own serialize() in declared order (byte-level independence of payload fields is C13's and C03's job)",
        "generated struct values are normalised by one serialize/deserialize pass so that conditional (requires=) fields are present exactly when the struct's rule says so",
    ]
    return rep.finish()


def replay(data) -> int:
    import bellows.types as t

    if data.get("kind") == "enum":
        ty = next(c for c in enum_types() if c.__name__ == data["type"])
        size = gv._int_info(ty)[0] // 8
        raw = int(data["value"]).to_bytes(size, "little")
        v, rest = ty.deserialize(raw)
        print(f"{ty.__name__}: wire {raw.hex()} -> {v!r} (numeric {int(v):#x}) -> {bytes(v.serialize()).hex()}")
        return 0 if int(v) == data["value"] and bytes(v.serialize()) == raw and not rest else 1
    version, name = data["version"], data["command"]
    if data.get("history"):
        ctx = Ctx(version)
        viol, stats = [], {"calls": 0}
        if data["history"] == "concurrent":
            concurrent_cases(ctx, t, version, viol, stats)
        else:
            history_cases(ctx, t, version, viol, stats)
        ctx.close()
        for v in viol:
            print(v[1])
        return 1 if viol else 0
    cls = ezspenv.handler_class(version)
    cid, tx, rx = cls.COMMANDS[name]
    print("schema:", tx, rx)
    txs, rxs = tuples_for(tx, True), tuples_for(rx, True)
    if txs is None or rxs is None:
        ctx = Ctx(version)
        task = ctx.loop.create_task(ctx.ezsp._command(name))
        ctx.loop.settle()
        print("calling it:", task.exception() if task.done() else "pending")
        ctx.close()
        return 1
    ctx = Ctx(version)
    bad = 0
    for k in range(max(len(txs), len(rxs))):
        for form in ("positional", "keyword"):
            if form == "keyword" and (not isinstance(tx, dict) or not tx):
                continue
            m = one_call(ctx, t, version, name, cid, tx, rx, txs[k % len(txs)][1], rxs[k % len(rxs)][1], form)
            if m:
                print(k, form, m)
                bad += 1
        m = one_callback(ctx, t, version, name, cid, rx, rxs[k % len(rxs)][1])
        if m:
            print(k, "callback", m)
            bad += 1
    ctx.close()
    return 1 if bad else 0
