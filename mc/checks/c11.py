"""C11 -- the reset handshake completes only on the NCP's software-reset RSTACK.

Real ``Gateway`` + real ``AshProtocol`` on a fake transport, stepped one event-loop
iteration at a time on a virtual clock.

Part 1 (ENUM, complete): every RSTACK code 0..255 and every ERROR code that is not a
RESET_* code x arrival {before the request, at once, 4.9 s, in the same loop iteration as
the 5 s timeout, after the timeout, twice} x prior traffic leaving (tx, rx) counters at the
listed pairs -- scripted runs of the same world.

Part 2 (DB-DFS): workloads {reset, reset twice, start-up wait (1 s, as EZSP.startup_reset
does), reset after traffic}; at every loop iteration the explorer may inject one I/O event
{software RSTACK, power-on RSTACK, ERROR 0x51, NCP DATA frame, port error, EOF, a host send}
and/or let the earliest timer fire in that same iteration; all schedules with <= k deviations.
"""
from __future__ import annotations

import asyncio

from mc import explore, report
from mc.env import ref_ash
from mc.env.gwworld import GwWorld

RST_BYTES = bytes.fromhex("1ac038bc7e")
from mc import tunables

RESET_TIMEOUT = tunables.reset_timeout()     # "the reset timeout": bellows.uart.RESET_TIMEOUT, a tunable the property names but does not fix
STARTUP_WAIT = 1.0
SW = 0x0B
EPS = 1e-9

IO_EVENTS = ["rstack_sw", "rstack_pwr", "error51", "ncp_data", "port_error", "eof", "host_send"]
IO_BUDGET = {"rstack_sw": 2, "rstack_pwr": 1, "error51": 1, "ncp_data": 2, "port_error": 1, "eof": 1, "host_send": 1}


class Op:
    """One waiter (reset() or the start-up wait) and what happened while it was pending."""

    def __init__(self, kind, t0, task, n_writes):
        self.kind, self.t0, self.task, self.n_writes = kind, t0, task, n_writes
        self.deadline = t0 + (RESET_TIMEOUT if kind == "reset" else STARTUP_WAIT)
        self.sw_at = None          # (time, coincident-with-deadline) of the first software RSTACK executed while pending
        self.lost_at = None        # (time, exc repr) connection_lost executed while pending
        self.outcome = None        # (kind, time, detail)


class World(GwWorld):
    def __init__(self, params):
        super().__init__()
        self.p = params
        self.viol: list[str] = []
        self.ops: list[Op] = []
        self.left = dict(IO_BUDGET)
        self.left.update(params.get("budget", {}))
        self.resets_left = params.get("resets", 1)
        self.ended = False
        self.steps = 0
        self.n_failed_seen = 0
        self.expected_failed: list[tuple] = []
        self.n_ncp = 0
        self.host_sends: list[asyncio.Task] = []
        self.tr.on_write = self._on_write
        self._orig_lost = self.gw.connection_lost
        self.lost_exec = None
        self.lost_exc = None
        tx, rx = params.get("prior", (0, 0))
        self._in_prior = True
        self.prior_traffic(tx, rx)
        self._in_prior = False
        self.app.events.clear()
        self.skip_acks = 0
        if params.get("inflight") == "before":
            self.unacked_host_send()
        if params.get("rstack_before"):
            self._deliver("rstack", params["rstack_before"])
            self.loop.settle()
        self._start(params["workload"])

    def unacked_host_send(self):
        """A host send whose first transmission the NCP leaves unanswered (it is busy restarting); repeats are acknowledged."""
        self.skip_acks = 1
        self.host_sends.append(self.loop.create_task(self._host_send()))
        self.loop.settle()

    # -- operations -----------------------------------------------------------------
    def _start(self, kind):
        t0 = self.loop.time()
        n = len(self.tr.writes)
        if kind == "reset":
            coro = self.gw.reset()
        else:
            async def startup():
                async with asyncio.timeout(STARTUP_WAIT):
                    await self.gw.wait_for_startup_reset()
            coro = startup()
        task = self.loop.create_task(coro)
        op = Op(kind, t0, task, n)
        self.ops.append(op)
        task.add_done_callback(lambda t, op=op: self._op_done(op))

    def _op_done(self, op):
        t = op.task
        now = self.loop.time()
        if t.cancelled():
            op.outcome = ("cancelled", now, "")
        elif t.exception() is None:
            op.outcome = ("ok", now, repr(t.result()))
        elif isinstance(t.exception(), asyncio.TimeoutError):
            op.outcome = ("timeout", now, "")
        else:
            op.outcome = ("error", now, repr(t.exception()))

    def pending_op(self):
        return next((o for o in self.ops if o.outcome is None), None)

    # -- wire monitor ---------------------------------------------------------------
    def _on_write(self, data):
        if getattr(self, "_in_prior", True):
            return
        for f in ref_ash_frames(data):
            if f[0] == "DATA":
                if not f[2]:
                    # a new DATA frame from the host: its number must be the reference's
                    if f[1] != self.ref_tx:
                        self.viol.append(f"host DATA frame numbered {f[1]}, a conforming peer expects {self.ref_tx}")
                        self.ref_tx = f[1]
                    self.ref_tx = (self.ref_tx + 1) % 8
                # a prompt NCP acknowledges every DATA frame (first transmission or repeat)
                if self.skip_acks > 0:
                    self.skip_acks -= 1
                elif not self.lost:
                    self.io_frame(ref_ash.enc_ack((f[1] + 1) % 8), "auto-ack")

    # -- environment events -----------------------------------------------------------
    def _deliver(self, name, code=None):
        """Append one I/O callback.  Monitor updates happen when the callback *runs*."""
        if name == "rstack":
            frame = ref_ash.enc_rstack(code)

            def cb():
                self._note_rstack(code)
                self.proto.data_received(ref_ash.wire(frame))
            self.loop.call_soon(cb)
        elif name == "error":
            frame = ref_ash.enc_error(code)

            def cb():
                self.expected_failed.append((self.loop.time(), code))
                self.proto.data_received(ref_ash.wire(frame))
            self.loop.call_soon(cb)
        elif name == "ncp_data":
            self.n_ncp += 1
            k = self.n_ncp

            def cb():
                frame = ref_ash.enc_data(self.ref_rx, 0, self.ref_tx, bytes([0x60, k, 0x61, 0x62]))
                n = sum(1 for e in self.app.events if e[0] == "frame")
                self.proto.data_received(ref_ash.wire(frame))
                if sum(1 for e in self.app.events if e[0] == "frame") != n + 1:
                    self.viol.append(f"in-sequence DATA frame numbered {self.ref_rx} from the NCP was not handed up")
                self.ref_rx = (self.ref_rx + 1) % 8
            self.loop.call_soon(cb)
        elif name == "port_error":
            self.lost = True
            self.lost_exc = OSError("port gone")
            self.loop.call_soon(self.tr.abort_with, self.lost_exc)
        elif name == "eof":
            self.io_eof()
        elif name == "host_send":
            self.host_sends.append(self.loop.create_task(self._host_send()))
        else:
            raise ValueError(name)

    async def _host_send(self):
        try:
            await self.gw.send_data(b"\x70\x71\x72\x73")
        except Exception:
            pass

    def _note_rstack(self, code):
        now = self.loop.time()
        self.ref_rx = 0
        self.ref_tx = 0
        if code != SW:
            self.expected_failed.append((now, code))
            return
        op = self.pending_op()
        if op is not None and op.sw_at is None and op.lost_at is None and now <= op.deadline + EPS:
            # at the deadline instant the timeout may already have fired (or fire in this iteration): either may win
            op.sw_at = (now, abs(now - op.deadline) < EPS)

    # -- stepping ---------------------------------------------------------------------
    _timers_fired_now = False

    def enabled(self):
        if self.ended:
            return []
        out = []
        ready = self.loop.ready_count() > 0
        dl = self.loop.next_deadline()
        op = self.pending_op()
        busy = op is not None or any(not t.done() for t in self.host_sends)
        if ready:
            out.append((("run",), 0))
            if dl is not None:
                out.append((("T",), 1))
        elif busy and dl is not None:
            out.append((("T",), 0))
        elif self.resets_left > 0 and not self.lost and op is None:
            self.resets_left  # noqa
            out.append((("reset-again",), 0))
        else:
            out.append((("end",), 0))
        if not self.lost and self.steps < 60:
            for name in IO_EVENTS:
                if self.left[name] <= 0:
                    continue
                out.append(((name,), 1))
                if dl is not None:
                    out.append(((name, "T"), 1))
        return out

    def apply(self, i):
        label = self.enabled()[i][0]
        self.step(label)

    def step(self, label):
        self.steps += 1
        self.viol = []
        name = label[0]
        if name == "end":
            self.ended = True
            self._final_checks()
            return
        if name == "reset-again":
            self.resets_left -= 1
            self._start("reset")
            self._run_batch(False)
            return
        timers = name == "T" or (len(label) > 1 and label[1] == "T")
        if name not in ("run", "T"):
            self.left[name] -= 1
            if name == "rstack_sw":
                self._deliver("rstack", SW)
            elif name == "rstack_pwr":
                self._deliver("rstack", 0x02)
            elif name == "error51":
                self._deliver("error", 0x51)
            else:
                self._deliver(name)
        self._run_batch(timers)

    def _run_batch(self, timers):
        self._timers_fired_now = False
        if timers:
            self._timers_fired_now = self.loop.fire_timers() > 0
        n_lost = sum(1 for e in self.app.events if e[0] == "lost")
        self._watch_lost()
        self.loop.run_batch()
        self._timers_fired_now = False
        self._check_failed_calls()
        self._check_ops()

    def _watch_lost(self):
        # note the moment Gateway.connection_lost executes (it is reached through AshProtocol.connection_lost)
        if self.lost and self.lost_exec is None and self.tr.lost_delivered is False:
            pass

    def _check_failed_calls(self):
        got = [(e[1], e[2]) for e in self.app.events if e[0] == "failed"]
        if len(got) > len(self.expected_failed):
            extra = got[len(self.expected_failed):]
            self.viol.append(f"application.enter_failed_state called without an NCP failure frame: codes {[c for _, c in extra]}")
            self.expected_failed += extra
        self.n_failed_seen = len(got)

    def _check_ops(self):
        now = self.loop.time()
        # connection_lost has executed once the transport delivered it
        if self.tr.lost_delivered and self.lost_exec is None:
            self.lost_exec = (now, self.loop.batches)
            for op in self.ops:
                if op.outcome is None or (op.outcome[1] == now and op.outcome[0] != "ok"):
                    if op.sw_at is None:
                        op.lost_at = (now, abs(now - op.deadline) < EPS)
        for op in self.ops:
            if op.outcome is not None and not getattr(op, "judged", False):
                op.judged = True
                self._judge(op)
            elif op.outcome is None:
                # liveness inside the run: nothing may stay pending past its deadline, or two batches after a loss
                if now > op.deadline + EPS and self.loop.ready_count() == 0:
                    self.viol.append(f"{op.kind} still pending after its timeout")
                    op.outcome = ("stuck", now, "")
                    op.judged = True
                if op.sw_at is not None and not op.sw_at[1]:
                    op.sw_batches = getattr(op, "sw_batches", 0) + 1
                    if op.sw_batches > 3:
                        self.viol.append(f"{op.kind} still pending three loop iterations after the software-reset RSTACK")
                        op.outcome = ("stuck", now, "")
                        op.judged = True
                if self.lost_exec is not None and self.loop.batches - self.lost_exec[1] >= 3:
                    self.viol.append(f"{op.kind} still pending three loop iterations after the connection was lost")
                    op.outcome = ("stuck", now, "")
                    op.judged = True

    def _judge(self, op):
        kind, t, detail = op.outcome
        name = "reset()" if op.kind == "reset" else "start-up wait"
        # bytes written by the request
        if op.kind == "reset":
            w = b"".join(d for _, d in self.tr.writes[op.n_writes:op.n_writes + 1])
            others = [d for _, d in self.tr.writes[op.n_writes:] if d == RST_BYTES]
            if not getattr(op, "piggyback", False) and w != RST_BYTES:
                self.viol.append(f"reset request wrote {w.hex() or 'nothing'} first, expected 1ac038bc7e")
        allowed = set()
        if op.sw_at is not None:
            allowed.add("ok")
            if op.sw_at[1]:
                allowed.add("timeout")
            t_exp = {"ok": op.sw_at[0], "timeout": op.deadline}
        elif op.lost_at is not None and op.lost_at[0] <= op.deadline + EPS:
            allowed.add("error")
            if op.lost_at[1] or abs(op.lost_at[0] - op.deadline) < EPS:
                allowed.add("timeout")
            t_exp = {"error": op.lost_at[0], "timeout": op.deadline}
        else:
            allowed.add("timeout")
            t_exp = {"timeout": op.deadline}
        if kind not in allowed:
            why = ("a software-reset RSTACK arrived in time" if op.sw_at else
                   "the connection was lost" if op.lost_at else "no software-reset RSTACK arrived after the request")
            self.viol.append(f"{name} ended with {kind} {detail} at +{t - op.t0:.3f}s; {why}, allowed: {sorted(allowed)}")
            return
        # Virtual time may jump between the iteration that resolves the waiter and the one in which the caller
        # resumes, so only "not before" is judged here; "not (much) later" is the liveness rule in _check_ops.
        if t < t_exp[kind] - EPS or (self.p.get("exact_times") and abs(t - t_exp[kind]) > EPS):
            self.viol.append(f"{name} ended with {kind} at +{t - op.t0:.3f}s, expected at +{t_exp[kind] - op.t0:.3f}s")
        if kind == "error" and self.lost_exc is not None and repr(self.lost_exc) != detail:
            self.viol.append(f"{name} raised {detail}, the connection error was {self.lost_exc!r}")

    def _final_checks(self):
        for e in self.loop.escaped_callback_exceptions():
            self.viol.append(f"an exception escaped from a protocol / loop callback: {e}")
        for op in self.ops:
            if op.outcome is None:
                self.viol.append(f"{op.kind} never finished")
        got = [(round(t, 9), c) for _, t, c in [e for e in self.app.events if e[0] == "failed"]]
        exp = [(round(t, 9), c) for t, c in self.expected_failed]
        if got != exp:
            self.viol.append(f"application.enter_failed_state calls {got} != NCP failure frames delivered {exp}")
        last = self.ops[-1]
        if not self.lost and last.outcome and last.outcome[0] == "ok" and all(t.done() for t in self.host_sends):
            # after a completed handshake both directions restart at zero (modulo traffic since the RSTACK,
            # which the reference counters have followed)
            if self.proto._ncp_state.name != "CONNECTED":
                return
            n = len(self.tr.writes)
            task = self.loop.create_task(self.gw.send_data(b"\x01\x02\x03\x04"))
            self.loop.settle()
            frames = [f for _, d in self.tr.writes[n:] for f in ref_ash_frames(d) if f[0] == "DATA"]
            if not frames:
                self.viol.append("after a completed handshake a send wrote no DATA frame")
            # (the number itself is checked by _on_write against the reference counter)
            nf = sum(1 for e in self.app.events if e[0] == "frame")
            self.io_frame(ref_ash.enc_data(self.ref_rx, 0, self.ref_tx, b"\x05\x06\x07\x08"))
            self.loop.settle()
            if sum(1 for e in self.app.events if e[0] == "frame") != nf + 1:
                self.viol.append(f"after a completed handshake DATA frame number {self.ref_rx} from the NCP was not accepted")

    def done(self):
        return self.ended

    def finish(self):
        return []

    def step_violations(self):
        return self.viol

    def signature(self):
        return tuple((o.kind, o.outcome[0] if o.outcome else None, round(o.outcome[1] - o.t0, 6) if o.outcome else None) for o in self.ops) + (
            len(self.expected_failed), self.lost)


def ref_ash_frames(data):
    from mc.env.ashworld import split_wire

    return [f for f in split_wire(data) if f[0] in ("DATA", "ACK", "NAK", "RST")]


class DfsWorld:
    """Adapter for explore.run_one: accumulates violations over the run."""

    def __init__(self, params):
        self.w = World(params)
        self.all_viol = list(self.w.viol)

    def done(self):
        return self.w.done()

    def enabled(self):
        return self.w.enabled()

    def apply(self, i):
        self.w.apply(i)
        self.all_viol += self.w.viol

    def finish(self):
        return self.all_viol

    def signature(self):
        return self.w.signature()

    def close(self):
        self.w.close()


def build(params):
    return DfsWorld(params)


def vkey(msg):
    import re

    m = re.sub(r"[-+]?\d+\.\d+s?", "#", msg)
    m = re.sub(r"0x[0-9a-fA-F]+|\b\d+\b", "#", m)
    m = re.sub(r"\[[^\]]*\]|\([^\)]*\)", "", m)
    return "C11|" + re.sub(r"\s+", " ", m).strip()[:100]


# --- part 1: scripted enumeration ------------------------------------------------------

def scripted(kind, code, arrival, prior, workload="reset"):
    """Returns (violations, signature)."""
    params = {"workload": workload, "prior": prior, "resets": 0, "budget": {}, "exact_times": True}
    if arrival == "before":
        params["rstack_before"] = code if kind == "rstack" else None
    w = World(params)
    viol = list(w.viol)

    def st(label):
        w.step(label)
        viol.extend(w.viol)

    def frame(timers=False):
        w._deliver("rstack" if kind == "rstack" else "error", code)
        w._run_batch(timers)
        viol.extend(w.viol)

    def settle():
        n = 0
        while w.loop.ready_count() and n < 50:
            st(("run",))
            n += 1

    settle()
    if arrival == "at_once":
        frame()
    elif arrival == "late_in_time":
        w.loop._vtime += (RESET_TIMEOUT - 0.1) if workload == "reset" else 0.9
        frame()
    elif arrival == "coincident":
        w.loop._vtime = max(w.loop._vtime, w.loop.next_deadline())
        frame(True)
    elif arrival == "after_timeout":
        st(("T",)); settle()
        frame()
    elif arrival == "twice":
        frame(); settle(); frame()
    settle()
    n = 0
    while not w.done() and n < 100:
        en = w.enabled()
        st(en[0][0])
        n += 1
    sig = w.signature()
    w.close()
    return viol, sig


def scripted_inflight(prior, when, arrival):
    """A host DATA frame is outstanding (unacknowledged) when the software-reset RSTACK of a requested reset arrives -- submitted
    before the request or between the RST and the RSTACK.  The handshake must complete and both directions restart at zero
    (checked by the post-handshake traffic of _final_checks against the reference counters)."""
    params = {"workload": "reset", "prior": prior, "resets": 0, "budget": {}, "inflight": when}
    w = World(params)
    viol = list(w.viol)

    def st(label):
        w.step(label)
        viol.extend(w.viol)

    def settle():
        n = 0
        while w.loop.ready_count() and n < 50:
            st(("run",))
            n += 1

    settle()
    if when == "after":
        w.unacked_host_send()
        viol.extend(w.viol)
    if arrival == "late":
        w.loop._vtime += 0.3      # (still before the first acknowledgement timeout)
    if arrival == "ack-then-rstack":
        # the NCP's ACK for the outstanding frame and its RSTACK are read in the same loop iteration, the ACK first
        # (the sender of that frame resumes only after both callbacks have run)
        w.io_frame(ref_ash.enc_ack(w.ref_tx), "ack")
    w._deliver("rstack", SW)
    w._run_batch(False)
    viol.extend(w.viol)
    settle()
    n = 0
    while not w.done() and n < 200:
        st(w.enabled()[0][0])
        n += 1
    if not w.done():
        viol.append("run with an outstanding host DATA frame at the RSTACK did not end")
    sig = w.signature()
    w.close()
    return viol, sig


def part1(tier, rep):
    import bellows.types as t

    reset_codes = {int(m) for m in t.NcpResetCode if m.name.startswith("RESET_")}
    arrivals = ["before", "at_once", "late_in_time", "coincident", "after_timeout", "twice"]
    if tier == "quick":
        priors = [(0, 0), (1, 0), (0, 1), (3, 5), (7, 7), (4, 4)]
    else:
        priors = [(i, j) for i in range(8) for j in range(8)]
    n = 0
    sigs = set()
    for kind in ("rstack", "error"):
        for code in range(256):
            if kind == "error" and code in reset_codes:
                continue  # an ERROR frame carrying a RESET_* code is outside the quantifier ("ASH error codes")
            for arrival in arrivals:
                if kind == "error" and arrival == "before":
                    continue
                # all codes x all arrivals on the zero counters; the counter pairs only for the codes that matter
                plist = priors if code in (SW, 0x02, 0x51, 0x00, 0xFF) else [(0, 0), (3, 5)]
                for prior in plist:
                    for workload in (("reset", "startup") if prior == (0, 0) else ("reset",)):
                        viol, sig = scripted(kind, code, arrival, prior, workload)
                        n += 1
                        sigs.add((kind, code == SW, arrival, workload, sig))
                        for v in viol:
                            rep.add_violation(vkey(v), v, {"world": "c11-scripted", "kind": kind, "code": code, "arrival": arrival,
                                                           "prior": list(prior), "workload": workload})
    for prior in ([(i, j) for i in range(8) for j in range(8)] if tier != "quick" else [(i, (3 * i + 1) % 8) for i in range(8)] + [(0, 0), (7, 7)]):
        for when in ("before", "after"):
            for arrival in ("at_once", "late", "ack-then-rstack"):
                viol, sig = scripted_inflight(prior, when, arrival)
                n += 1
                sigs.add(("inflight", when, arrival, prior[0] == 0, sig))
                for v in viol:
                    rep.add_violation(vkey("outstanding host frame at the RSTACK: " + v), f"host DATA frame outstanding when the RSTACK arrives (submitted {when} the reset request, counters {prior}): {v}",
                                      {"world": "c11-inflight", "prior": list(prior), "when": when, "arrival": arrival})
    return n, sigs


def part2(tier, rep):
    k = 2 if tier == "quick" else 3
    plist = [
        {"workload": "reset", "resets": 1},
        {"workload": "startup", "resets": 1},
        {"workload": "reset", "resets": 0, "prior": (7, 7)},
        {"workload": "reset", "resets": 0, "prior": (0, 8)},
    ]
    if tier != "quick":
        plist += [{"workload": "reset", "resets": 2}, {"workload": "startup", "resets": 0, "prior": (2, 3)}]
    st = explore.dbdfs(("mc.checks.c11", "build"), plist, k, budget_s=(60 if tier == "quick" else 1200))
    for v, params, choices, labels in st.violations:
        rep.add_violation(vkey(v), v, {"world": "c11", "params": params, "choices": choices, "labels": labels})
    return st, k


def main(tier: str) -> int:
    rep = report.Report("C11", tier, "fault_enumeration")
    n1, sigs1 = part1(tier, rep)
    st, k = part2(tier, rep)
    if len(sigs1) < 20 or len(st.signatures) < 20:
        raise explore.InternalError(f"C11 vacuous: scripted signatures {len(sigs1)}, explored signatures {len(st.signatures)}")
    rep.coverage = {
        "evaluations": n1 + st.executions,
        "distinct_nontrivial": len(sigs1) + len(st.signatures),
        "scripted_runs": n1,
        "explored_executions": st.executions,
        "max_deviations_completed": k if not st.capped else k - 1,
        "capped": st.capped,
        "max_depth": st.max_depth,
        "exhaustive": not st.capped,
        "rule": "part 1: RSTACK code 0..255 and every ERROR code that is not a RESET_* code x 6 arrival timings x counter pairs x {reset, start-up wait}; "
                "part 2: every schedule with <= k deviations where a deviation injects one I/O event (software/power-on RSTACK, ERROR, NCP DATA, port error, EOF, host send) "
                "into a chosen loop iteration, optionally together with the earliest timer; distinct = distinct (operation outcomes, times, failure calls) signature",
        "samples": st.samples[:3] + [{"scripted": {"kind": "rstack", "code": 11, "arrival": "coincident", "prior": [3, 5]}}],
    }
    rep.assumptions = [
        "reset timeout 5 s and the 1 s start-up wait are hard-coded in the oracle",
        "when a software RSTACK or a connection loss lands in the same loop iteration as the timeout either outcome is accepted",
        "ERROR frames carrying a RESET_* code are outside the quantifier and not generated",
        "model = implementation (Gateway + AshProtocol) on a hand-stepped loop; only orders BaseEventLoop._run_once can produce",
    ]
    return rep.finish()


def replay(data) -> int:
    if data.get("world") == "c11-inflight":
        viol, sig = scripted_inflight(tuple(data["prior"]), data["when"], data["arrival"])
        print(sig)
        for v in viol:
            print("VIOLATION:", v)
        return 1 if viol else 0
    if data.get("world") == "c11-scripted":
        viol, sig = scripted(data["kind"], data["code"], data["arrival"], tuple(data["prior"]), data["workload"])
        print(sig)
        for v in viol:
            print("VIOLATION:", v)
        return 1 if viol else 0
    params = dict(data["params"])
    if "prior" in params:
        params["prior"] = tuple(params["prior"])
    w = World(params)
    bad = list(w.viol)
    for c in data["choices"]:
        if w.done():
            break
        en = w.enabled()
        print(f"t={w.loop.time():.3f} {en[c][0]}")
        w.apply(c)
        for v in w.viol:
            print("   VIOLATION:", v)
        bad += w.viol
    print(w.signature())
    w.close()
    return 1 if bad else 0
