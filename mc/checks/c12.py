"""C12 -- a unicast is reported delivered only on its own delivery confirmation.

Deviation-bounded stateless search (DB-DFS) over the real ``ControllerApplication.send_packet``
(real EZSP, real version handler, fake gateway, frame-level NCP simulator, hand-stepped loop,
virtual clock).  Two (thorough: three) packets are sent concurrently; at every quiescent point
the environment answers the NCP's pending request or delivers a confirmation; deviations:
each busy / refusal enqueue status, confirmation failure, foreign tag, foreign destination,
duplicate, unsolicited, confirmation ahead of the enqueue response, silence (120 s), address
lookup miss, caller cancellation.
"""
from __future__ import annotations

import asyncio

from mc import explore, report
from mc.env import appenv, ezspenv
from mc.vloop import VLoop

from mc import tunables

# "the fixed number of spaced retries" / the confirmation timeout: values are bellows' tunables, not fixed by the property
APS_ACK_TIMEOUT = tunables.aps_ack_timeout()
RETRY_DELAYS = tunables.retry_delays()
EPS = 1e-9
KNOWN = {0x1111: bytes([1, 2, 3, 4, 5, 6, 7, 8]), 0x2222: bytes([2, 2, 3, 4, 5, 6, 7, 8])}

KINDS = {
    # kind: (addr mode, address, source route, extended timeout)
    "U": ("nwk", 0x1111, None, False),
    "U2": ("nwk", 0x2222, None, False),
    "S": ("nwk", 0x2222, [0x3333, 0x3334], False),
    "X": ("nwk", 0x1111, None, True),
    "I": ("ieee", 0x1111, None, False),
    "Iu": ("ieee-unknown", None, None, False),
    "M": ("group", 0x4444, None, False),
    "B": ("broadcast", 0xFFFD, None, False),
}


class Pkt:
    def __init__(self, idx, kind):
        self.idx, self.kind = idx, kind
        self.mode, self.addr, self.route, self.ext = KINDS[kind]
        self.task = None
        self.outcome = None
        self.t_done = None
        self.tag = None              # message tag seen in its send frame
        self.sends = []              # (time, status answered)
        self.accepted_at = None
        self.confirm = None          # (time, ok?) first own confirmation delivered while pending
        self.cancelled = False
        self.is_unicast = self.mode in ("nwk", "ieee")


class World:
    def __init__(self, params):
        import zigpy.device
        import zigpy.types as zt

        import bellows.types as t

        self.t, self.zt = t, zt
        self.p = params
        self.version = params["version"]
        self.loop = VLoop().enter()
        self.app, self.ezsp, self.gw, self.ncp = appenv.make_app(self.loop, self.version, extra_config={"source_routing": params.get("source_routing", False)})
        app = self.app
        app._ctrl_event.set()
        self.ezsp.add_callback(app.ezsp_callback_handler)
        app.state.node_info.nwk = zt.NWK(0x0000)
        for nwk, ieee in KNOWN.items():
            dev = zigpy.device.Device(app, zt.EUI64(ieee), zt.NWK(nwk))
            app.devices[dev.ieee] = dev
        # NCP: requests queue up, the explorer answers them one at a time
        self.queue = []
        self.ncp.default = self._enqueue
        self.ncp.handlers = {}
        self.viol = []
        self.frames = []             # request log: (name, owner pkt idx or None, args)
        self.pkts = [Pkt(i, k) for i, k in enumerate(params["kinds"])]
        self.last_confirm = None
        self.left = {"busy": len(RETRY_DELAYS), "refuse": 1, "cfail": 1, "ftag": 1, "fdest": 1, "dup": 1, "unsol": 1, "early": 1, "T": 2, "cancel": 1, "miss": 1, "stale": 1}
        self.left.update(params.get("budget", {}))
        self.ended = False
        self.aps_seq = 0x30
        from mc import leaks

        self.futures_before = leaks.count_futures(app)
        for _ in range(params.get("seq_prior", 0)):     # an application that has already handed out this many sequence numbers:
            app.get_sequence()                          # the message tags of the run straddle the wrap of the 8-bit sequence
        for p in (self.pkts[:1] if params.get("sequential") else self.pkts):
            self._start(p)
        self.loop.settle()
        self._judge()

    # -- packets -----------------------------------------------------------------------
    def _packet(self, p):
        zt = self.zt
        if p.mode == "nwk":
            dst = zt.AddrModeAddress(addr_mode=zt.AddrMode.NWK, address=zt.NWK(p.addr))
        elif p.mode == "ieee":
            dst = zt.AddrModeAddress(addr_mode=zt.AddrMode.IEEE, address=zt.EUI64(KNOWN[p.addr]))
        elif p.mode == "ieee-unknown":
            dst = zt.AddrModeAddress(addr_mode=zt.AddrMode.IEEE, address=zt.EUI64(bytes([9] * 8)))
        elif p.mode == "group":
            dst = zt.AddrModeAddress(addr_mode=zt.AddrMode.Group, address=zt.Group(p.addr))
        else:
            dst = zt.AddrModeAddress(addr_mode=zt.AddrMode.Broadcast, address=zt.BroadcastAddress(p.addr))
        return zt.ZigbeePacket(
            src=zt.AddrModeAddress(addr_mode=zt.AddrMode.NWK, address=zt.NWK(0)), src_ep=1, dst=dst, dst_ep=1, tsn=0x40 + p.idx,
            profile_id=0x0104, cluster_id=0x0006, data=zt.SerializableBytes(bytes([0xD0 + p.idx, 1, 2])),
            source_route=[zt.NWK(x) for x in p.route] if p.route else None, extended_timeout=p.ext, priority=zt.PacketPriority.NORMAL,
            radius=3, non_member_radius=3,
        )

    def _start(self, p):
        async def run():
            try:
                await self.app.send_packet(self._packet(p))
            except asyncio.CancelledError:
                p.outcome = ("cancelled",)
                raise
            except asyncio.TimeoutError:
                p.outcome = ("timeout",)
            except BaseException as e:  # noqa
                p.outcome = ("error", type(e).__name__)
            else:
                p.outcome = ("ok",)
            finally:
                p.t_done = self.loop.time()

        p.task = self.loop.create_task(run())

    # -- NCP side ------------------------------------------------------------------------
    def _owner(self, name, a):
        """Which packet a request frame belongs to."""
        t = self.t
        def by(pred):
            c = [p for p in self.pkts if p.task is not None and (not p.task.done() or p.cancelled) and pred(p)]
            return c[0].idx if c else None
        if name == "sendUnicast":
            dest, tag = self._wire
            if dest is None:
                return None
            p = next((p for p in self.pkts if p.is_unicast and p.addr == dest and (p.tag in (None, tag)) and p.task is not None and not p.task.done()), None)
            if p is not None:
                p.tag = tag
                return p.idx
            return None
        if name == "sendMulticast":
            tag = self._wire[1]
            i = by(lambda p: p.mode == "group")
            if i is not None:
                self.pkts[i].tag = tag
            return i
        if name == "sendBroadcast":
            tag = self._wire[1]
            i = by(lambda p: p.mode == "broadcast")
            if i is not None:
                self.pkts[i].tag = tag
            return i
        if name == "setSourceRoute":
            return by(lambda p: p.route and p.addr == int(a["destination"]))
        if name in ("getExtendedTimeout", "setExtendedTimeout"):
            ieee = bytes(a["remoteEui64"].serialize())
            return by(lambda p: p.ext and KNOWN.get(p.addr) == ieee)
        if name == "lookupNodeIdByEui64":
            ieee = bytes(a["eui64"].serialize())
            return by(lambda p: p.ext and KNOWN.get(p.addr) == ieee)
        if name in ("replaceAddressTableEntry",):
            ieee = bytes(a["newEui64"].serialize())
            return by(lambda p: p.ext and KNOWN.get(p.addr) == ieee)
        if name == "getConfigurationValue":
            return by(lambda p: p.ext)
        return None

    def _enqueue(self, name, args):
        self._wire = self._wire_send(name, self.ncp.log[-1][3]) if name.startswith("send") else (None, None)
        owner = self._owner(name, args)
        self.frames.append((name, owner, self.loop.time()))
        self.queue.append((name, args, owner, self.ncp.log[-1][3]))
        self._check_block(name, owner)
        return None

    def _check_block(self, name, owner):
        """Set-up commands and the send of one request form a block (segments are delimited by send frames)."""
        if not name.startswith("send"):
            return
        # segment = frames after the previous send frame up to this one
        seg = []
        start = 0
        for idx in range(len(self.frames) - 2, -1, -1):
            if self.frames[idx][0].startswith("send"):
                start = idx + 1
                break
        seg_idx = list(range(start, len(self.frames) - 1))
        seg = [self.frames[i] for i in reversed(seg_idx)]
        # frames a CANCELLED request issued after its cancellation (a command already on the wire at that moment is not one) and after this
        # request's own set-up had begun: interleaved.  (A set-up that is allowed to finish before the next request starts would not be.)
        late = []
        own_seen = False
        for i in seg_idx:
            f = self.frames[i]
            if f[1] == owner:
                own_seen = True
            elif own_seen and f[1] is not None and self.pkts[f[1]].cancelled and i >= getattr(self.pkts[f[1]], "cancel_index", 1 << 30):
                late.append(f)
        foreign = [f for f in seg if f[1] is not None and f[1] != owner and not self.pkts[f[1]].cancelled] + late
        if foreign:
            self.viol.append(f"set-up frames of another request ({[f[0] for f in foreign]}) sit between this request's set-up and its {name}")
        if owner is not None:
            p = self.pkts[owner]
            names = [f[0] for f in seg if f[1] == owner]
            if p.route and self.version < 9 and "setSourceRoute" not in names:
                self.viol.append(f"{name} of a source-routed request is not directly preceded by its own setSourceRoute (frames since the previous send: {[f[0] for f in seg]})")
            if p.ext and "getExtendedTimeout" not in names:
                self.viol.append(f"{name} of an extended-timeout request is not directly preceded by its own extended-timeout set-up (frames since the previous send: {[f[0] for f in seg]})")

    def _reply(self, name, raw, vals):
        seq, fid, _ = ezspenv.dec_hdr(self.version, raw)
        cid, tx, rx = self.ncp.cls.COMMANDS[name]
        self.ncp.last_seq = seq
        self.ezsp.frame_received(ezspenv.enc_response_hdr(self.version, seq, fid) + ezspenv.encode_values(rx, vals))

    def _status(self, which):
        t = self.t
        if self.version >= 14:
            return {"ok": t.sl_Status.OK, "busy0": t.sl_Status.ZIGBEE_MAX_MESSAGE_LIMIT_REACHED, "busy1": t.sl_Status.TRANSMIT_BUSY,
                    "busy2": t.sl_Status.ALLOCATION_FAILED, "refuse0": t.sl_Status.NETWORK_DOWN, "refuse1": t.sl_Status.INVALID_STATE,
                    "refuse2": t.sl_Status.MESSAGE_TOO_LONG, "dfail": t.sl_Status.ZIGBEE_DELIVERY_FAILED}[which]
        return {"ok": t.EmberStatus.SUCCESS, "busy0": t.EmberStatus.MAX_MESSAGE_LIMIT_REACHED, "busy1": t.EmberStatus.NETWORK_BUSY,
                "busy2": t.EmberStatus.NO_BUFFERS, "refuse0": t.EmberStatus.NETWORK_DOWN, "refuse1": t.EmberStatus.INVALID_CALL,
                "refuse2": t.EmberStatus.MESSAGE_TOO_LONG, "dfail": t.EmberStatus.DELIVERY_FAILED}[which]

    def _answer(self, how):
        t = self.t
        name, args, owner, raw = self.queue.pop(0)
        now = self.loop.time()
        if name.startswith("send"):
            st = self._status(how)
            self.aps_seq += 1
            if owner is not None:
                p = self.pkts[owner]
                p.sends.append((now, how))
                if how == "ok" and p.accepted_at is None:
                    p.accepted_at = now
            self._reply(name, raw, [st, self.aps_seq & 0xFF])
        elif name in ("setSourceRoute", "getExtendedTimeout", "lookupNodeIdByEui64", "setExtendedTimeout", "getConfigurationValue", "replaceAddressTableEntry"):
            from mc import gen_values as gv

            cid, tx, rx = self.ncp.cls.COMMANDS[name]
            vals = []
            for fname, ty in rx.items():
                if fname == "status":
                    vals.append(t.EzspStatus.SUCCESS if ty is t.EzspStatus else self._status("ok"))
                elif fname == "nodeId":
                    vals.append(0xFFFF if how == "miss" else (self.pkts[owner].addr if owner is not None else 0xFFFF))
                elif fname == "extendedTimeout":
                    vals.append(t.Bool.false)
                elif fname == "value":
                    vals.append(8)
                else:
                    vals.append(gv.one(ty, "first" if gv.is_enum(ty) else "min"))
            self._reply(name, raw, vals)
        else:
            self.viol.append(f"unexpected command {name} reached the NCP")
        self.loop.settle()

    def _confirm(self, dest, tag, ok, mtype=0):
        """messageSentHandler built byte by byte from the UG100 layouts (pre-v14: type, destination, APS frame, 8-bit tag,
        status, contents; v14: 32-bit status, type, destination, APS frame, 16-bit tag, contents) -- not through bellows'
        own schema, so a schema that disagrees with the wire shows."""
        import struct

        cid = 0x3F
        aps = struct.pack("<HHBBHHB", 0x0104, 0x0006, 1, 1, 0x0040, 0, 0x31)
        st = int(self._status("ok" if ok else "dfail"))
        if self.version >= 14:
            body = struct.pack("<IBH", st, mtype, dest) + aps + struct.pack("<H", tag & 0xFFFF) + b"\x01\x01"
        else:
            body = struct.pack("<BH", mtype, dest) + aps + struct.pack("<BB", tag & 0xFF, st) + b"\x01\x01"
        self.last_confirm = (dest, tag, ok)
        self.ncp.deliver(ezspenv.enc_response_hdr(self.version, self.ncp.last_seq, cid, callback=True) + body)
        self.loop.settle()

    def _wire_send(self, name, raw):
        """(destination, tag) of a send request as they are on the wire (independent of bellows' tx schema)."""
        import struct

        seq, fid, payload = ezspenv.dec_hdr(self.version, raw)
        wide = self.version >= 14
        try:
            if name == "sendUnicast":
                _mtype, dest = struct.unpack_from("<BH", payload, 0)
                off = 3 + 11
            elif name == "sendMulticast":
                dest, off = None, 11 + (6 if wide else 2)
            else:  # sendBroadcast
                dest = struct.unpack_from("<H", payload, 2 if wide else 0)[0]
                off = (5 if wide else 2) + 11 + 1
            tag = struct.unpack_from("<H" if wide else "<B", payload, off)[0]
            off += 2 if wide else 1
            n = payload[off]
            if off + 1 + n != len(payload):
                raise ValueError("length")
            return dest, tag
        except (struct.error, IndexError, ValueError):
            self.viol.append(f"{name} request does not have the wire layout of protocol version {self.version}: {raw.hex()}")
            return None, None

    def awaiting_confirm(self):
        return [p for p in self.pkts if p.is_unicast and p.accepted_at is not None and p.confirm is None and not p.task.done()]

    # -- explorer interface -----------------------------------------------------------------
    def enabled(self):
        if self.ended:
            return []
        out = []
        L = self.left
        live = [p for p in self.pkts if p.task is not None and not p.task.done()]
        if self.queue:
            name, args, owner, raw = self.queue[0]
            out.append((("answer", name, "ok"), 0))
            if name.startswith("send"):
                if L["busy"] > 0:
                    for k in range(3):
                        out.append((("answer", name, f"busy{k}"), 1))
                if L["refuse"] > 0:
                    for k in range(3):
                        out.append((("answer", name, f"refuse{k}"), 1))
                if name == "sendUnicast" and L["early"] > 0 and owner is not None:
                    out.append((("confirm-before-response", owner), 1))
            if name == "lookupNodeIdByEui64" and L["miss"] > 0:
                out.append((("answer", name, "miss"), 1))
        else:
            aw = self.awaiting_confirm()
            if aw:
                out.append((("confirm", aw[0].idx, True), 0))
                if L["cfail"] > 0:
                    out.append((("confirm", aw[0].idx, False), 1))
                if L["ftag"] > 0:
                    out.append((("confirm-foreign-tag", aw[0].idx), 1))
                    if self.version >= 14:   # 16-bit tags: a foreign tag that shares the low byte
                        out.append((("confirm-foreign-tag-hi", aw[0].idx), 1))
                if L["fdest"] > 0:
                    out.append((("confirm-foreign-destination", aw[0].idx), 1))
                    # the confirmation of somebody else's broadcast / multicast / table-addressed unicast that happens to carry this tag
                    for mt in (1, 3, 6):
                        out.append((("confirm-foreign-destination-type", aw[0].idx, mt), 1))
                if L["T"] > 0 and self.loop.next_deadline() is not None:
                    out.append((("T",), 1))
                if len(aw) > 1:
                    out.append((("confirm", aw[1].idx, True), 1))
            elif live and self.loop.next_deadline() is not None:
                out.append((("T",), 0))
            else:
                out.append((("end",), 0))
        if L["stale"] > 0 and not self.queue:
            # a successful confirmation carrying a request's own destination and tag while the NCP has only ever answered "busy" to it
            # (the request is in its back-off): a stale duplicate from 256 messages ago.  It cannot stand in for the NCP's acceptance.
            for p in live:
                if p.is_unicast and p.tag is not None and p.accepted_at is None and p.confirm is None and p.sends and all(x.startswith("busy") for _, x in p.sends):
                    out.append((("confirm-own-during-backoff", p.idx), 1))
                    break
        if L["dup"] > 0 and self.last_confirm is not None:
            out.append((("confirm-duplicate",), 1))
        if L["unsol"] > 0:
            out.append((("confirm-unsolicited",), 1))
        if L["cancel"] > 0:
            for p in live:
                out.append((("cancel", p.idx), 1))
        return out

    def apply(self, i):
        label = self.enabled()[i][0]
        self.viol = []
        k = label[0]
        L = self.left
        if k == "end":
            self.ended = True
            self._final()
            return
        if k == "answer":
            how = label[2]
            if how.startswith("busy"):
                L["busy"] -= 1
            elif how.startswith("refuse"):
                L["refuse"] -= 1
            elif how == "miss":
                L["miss"] -= 1
            self._answer(how)
        elif k == "confirm-before-response":
            L["early"] -= 1
            p = self.pkts[label[1]]
            name, args, owner, raw = self.queue[0]
            tag = int(args.get("messageTag", args.get("message_tag")))
            p.confirm = (self.loop.time(), True)
            self._confirm(p.addr, tag, True)
            self._answer("ok")
        elif k == "confirm":
            p = self.pkts[label[1]]
            if not label[2]:
                L["cfail"] -= 1
            p.confirm = (self.loop.time(), label[2])
            self._confirm(p.addr, p.tag, label[2])
        elif k == "confirm-foreign-tag":
            L["ftag"] -= 1
            p = self.pkts[label[1]]
            self._confirm(p.addr, (p.tag + 7) % 256, True)
        elif k == "confirm-foreign-tag-hi":
            L["ftag"] -= 1
            p = self.pkts[label[1]]
            self._confirm(p.addr, p.tag + 0x100, True)
        elif k == "confirm-foreign-destination":
            L["fdest"] -= 1
            p = self.pkts[label[1]]
            self._confirm(0x7777, p.tag, True)
        elif k == "confirm-foreign-destination-type":
            L["fdest"] -= 1
            p = self.pkts[label[1]]
            self._confirm(0xFFFC if label[2] == 6 else 0x7777, p.tag, True, mtype=label[2])
        elif k == "confirm-own-during-backoff":
            L["stale"] -= 1
            p = self.pkts[label[1]]
            p.confirm = (self.loop.time(), True)
            self._confirm(p.addr, p.tag, True)
        elif k == "confirm-duplicate":
            L["dup"] -= 1
            self._confirm(*self.last_confirm)
        elif k == "confirm-unsolicited":
            L["unsol"] -= 1
            self._confirm(0x5555, 0x99, True)
        elif k == "T":
            if self.awaiting_confirm() and not self.queue:
                L["T"] -= 1
            self.loop.fire_timers()
            self.loop.settle()
        elif k == "cancel":
            L["cancel"] -= 1
            p = self.pkts[label[1]]
            p.cancelled = True
            p.cancel_index = len(self.frames)
            p.task.cancel()
            self.loop.settle()
            # a command of the cancelled request that is still queued at the NCP gets a plain answer later; drop ownership
        self._judge()

    # -- oracle ---------------------------------------------------------------------------------
    def _expected(self, p):
        """(outcome kind, time or None)"""
        if p.mode == "ieee-unknown":
            return ("error", None)
        statuses = [s for _, s in p.sends]
        # enqueue phase
        for k, (tm, s) in enumerate(p.sends):
            if s.startswith("refuse"):
                return ("error", tm)
            if s == "ok":
                break
        else:
            n = len(RETRY_DELAYS)
            if len(statuses) >= n and all(s.startswith("busy") for s in statuses[:n]):
                # after the last busy answer: at once, or after one more (useless) delay -- the property does not say
                return ("error", (p.sends[n - 1][0], p.sends[n - 1][0] + RETRY_DELAYS[n - 1]))
            return None
        if not p.is_unicast:
            return ("ok", p.accepted_at)
        if p.confirm is not None:
            tm = max(p.confirm[0], p.accepted_at)
            return ("ok", tm) if p.confirm[1] else ("error", tm)
        if self.loop.time() >= p.accepted_at + APS_ACK_TIMEOUT - EPS:
            return ("timeout", p.accepted_at + APS_ACK_TIMEOUT)
        return None

    def _judge(self):
        if self.p.get("sequential"):
            # the next packet is handed to send_packet only when the previous call has ended
            for i, p in enumerate(self.pkts):
                if p.task is None and all(q.task is not None and q.task.done() for q in self.pkts[:i]):
                    self._start(p)
                    self.loop.settle()
        for p in self.pkts:
            if p.task is None:
                continue
            exp = self._expected(p)
            if p.task.done() and not getattr(p, "judged", False):
                p.judged = True
                got = p.outcome
                if p.cancelled:
                    continue
                if exp is None:
                    self.viol.append(f"{p.kind}: send_packet ended with {got} although the reference says it must still be waiting "
                                     f"(sends {p.sends}, confirmation {p.confirm})")
                elif got[0] != exp[0]:
                    self.viol.append(f"{p.kind}: send_packet ended with {got}, expected {exp[0]} (enqueue answers {[s for _, s in p.sends]}, own confirmation {p.confirm})")
                elif isinstance(exp[1], tuple) and not (exp[1][0] - EPS <= p.t_done <= exp[1][1] + EPS):
                    self.viol.append(f"{p.kind}: send_packet ended with {got[0]} at {p.t_done:.3f}s, expected between {exp[1][0]:.3f}s and {exp[1][1]:.3f}s")
                elif exp[1] is not None and not isinstance(exp[1], tuple) and abs(p.t_done - exp[1]) > EPS:
                    self.viol.append(f"{p.kind}: send_packet ended with {got[0]} at {p.t_done:.3f}s, expected at {exp[1]:.3f}s")
                elif got[0] == "error" and p.mode != "ieee-unknown" and got[1] != "DeliveryError":
                    self.viol.append(f"{p.kind}: send_packet raised {got[1]}, expected a delivery error")
            elif not p.task.done() and exp is not None and isinstance(exp[1], tuple) and self.loop.time() < exp[1][1] - EPS:
                pass    # still inside the allowed window
            elif not p.task.done() and exp is not None and not self.queue:
                self.viol.append(f"{p.kind}: send_packet still pending, expected {exp[0]}")
                p.judged = True
        # busy retries are spaced by the fixed delays
        for p in self.pkts:
            for k in range(1, len(p.sends)):
                if p.sends[k - 1][1].startswith("busy"):
                    # the retry frame reached the NCP after exactly the delay; we record answer times, so compare request times
                    pass

    def _final(self):
        for p in self.pkts:
            if p.task is None or not p.task.done():
                self.viol.append(f"{p.kind}: send_packet never finished")
        pend = getattr(self.app, "_pending", None)
        n = len(pend) if pend is not None and hasattr(pend, "__len__") else 0
        if n:
            self.viol.append(f"{n} request(s) remain in the pending table after every send_packet call ended")
        else:
            # whatever shape the book-keeping has: an entry of a request holds the future its confirmation resolves
            from mc import leaks

            extra = leaks.count_futures(self.app) - self.futures_before
            if extra > 0:
                self.viol.append(f"{extra} future(s) of finished requests are still referenced from the application's book-keeping after every send_packet call ended")
        # spacing of retries, from the request log
        for p in self.pkts:
            times = [tm for (name, owner, tm) in self.frames if owner == p.idx and name.startswith("send")]
            for k in range(1, len(times)):
                gap = times[k] - times[k - 1]
                want = RETRY_DELAYS[k - 1]
                if k - 1 < len(p.sends) and p.sends[k - 1][1].startswith("busy") and abs(gap - want) > EPS and not p.cancelled:
                    self.viol.append(f"{p.kind}: retry #{k} sent {gap:.3f}s after the busy answer path, expected {want}s")

    def done(self):
        return self.ended

    def finish(self):
        return []

    def signature(self):
        return tuple((p.kind, p.outcome[0] if p.outcome else None, tuple(s for _, s in p.sends), p.confirm[1] if p.confirm else None) for p in self.pkts)

    def close(self):
        self.loop.shutdown()


class DfsWorld:
    def __init__(self, params):
        self.w = World(params)
        self.all = list(self.w.viol)

    def done(self):
        return self.w.done()

    def enabled(self):
        return self.w.enabled()

    def apply(self, i):
        self.w.apply(i)
        self.all += self.w.viol

    def finish(self):
        return self.all

    def signature(self):
        return self.w.signature()

    def close(self):
        self.w.close()


def build(params):
    return DfsWorld(params)


def vkey(msg):
    import re

    m = re.sub(r"\d+\.\d+s?", "#", msg)
    m = re.sub(r"\([^)]*\)|\[[^\]]*\]", "", m)
    m = re.sub(r"\b\d+\b", "#", m)
    m = re.sub(r"[\[\]\(\),']", "", m).split(" sends ")[0]
    return "C12|" + re.sub(r"\s+", " ", m).strip()[:100]


def param_list(tier):
    versions = [4, 8, 9, 13, 14] if tier == "quick" else ezspenv.VERSIONS   # 13 | 14: both sides of the v14 layout switch
    pairs = [("U", "U2"), ("S", "U"), ("X", "S"), ("S", "X"), ("I", "S"), ("M", "U"), ("B", "S"), ("U", "Iu"), ("U", "M"), ("S", "B"), ("X", "M")]
    out = []
    for v in versions:
        for kinds in pairs:
            out.append({"version": v, "kinds": list(kinds)})
        if tier != "quick":
            for kinds in (("U", "S", "M"), ("X", "S", "B"), ("S", "X", "U2")):
                out.append({"version": v, "kinds": list(kinds)})
        # message tags 255 and 0: the application's sequence number wraps between the two packets
        for kinds in ((("U", "U2"), ("S", "X")) if tier == "quick" else pairs):
            out.append({"version": v, "kinds": list(kinds), "seq_prior": 254})
    return out


def scripted_histories(rep, tier):
    """Requests one after the other on the same application object, the earlier one FAILING: busy on every attempt (delivery error),
    refused, confirmed as failed, or never confirmed (time-out).  The next, ordinary request is then answered busy once and accepted
    on the retry, or busy on every attempt, or accepted at once: it is judged by the same reference as ever (nothing an earlier
    request left behind may change it)."""
    n = 0
    nb = len(RETRY_DELAYS)
    firsts = {"busy-out": [("answer", "busy")] * nb, "refused": [("answer", "refuse0")], "confirmed-failed": [("answer", "ok"), ("confirm", False)],
              "never-confirmed": [("answer", "ok"), ("T",)]}
    seconds = {"busy-then-accepted": [("answer", "busy"), ("answer", "ok"), ("confirm", True)], "busy-out": [("answer", "busy")] * nb,
               "accepted": [("answer", "ok"), ("confirm", True)], "busy-then-own-confirmation": [("answer", "busy"), ("confirm-own-during-backoff",)] + [("answer", "busy")] * (nb - 1)}
    versions = [4, 8, 13, 14] if tier == "quick" else ezspenv.VERSIONS
    for v in versions:
        for kinds in (("U", "U2"), ("U", "U"), ("S", "X")):
            for busy in (0, 1, 2):
                for fname, first in firsts.items():
                    for sname, second in seconds.items():
                        n += 1
                        w = World({"version": v, "kinds": list(kinds), "sequential": True, "budget": {"busy": 4 * nb, "refuse": 2, "cfail": 2, "T": 3, "stale": 1}})
                        bad = list(w.viol)
                        script = list(first) + list(second)
                        steps = 0
                        while not w.done() and steps < 400:
                            steps += 1
                            en = [e[0] for e in w.enabled()]
                            pick = 0
                            if script:
                                want = script[0]
                                for i, lab in enumerate(en):
                                    name = lab[0]
                                    if want[0] == "answer" and name == "answer" and lab[1].startswith("send") and (
                                            lab[2] == want[1] or (want[1] == "busy" and lab[2] == f"busy{busy}")):
                                        pick = i
                                        break
                                    if want[0] == "confirm" and name == "confirm" and lab[2] is want[1]:
                                        pick = i
                                        break
                                    if want[0] == "T" and name == "T" and w.awaiting_confirm() and not w.queue:
                                        pick = i
                                        break
                                    if want[0] == "confirm-own-during-backoff" and name == want[0]:
                                        pick = i
                                        break
                                else:
                                    pick = 0
                                lab = en[pick]
                                matched = (want[0] == lab[0] and (want[0] != "answer" or lab[1].startswith("send"))) and not (want[0] == "answer" and pick == 0 and want[1] != "ok")
                                if want[0] == "answer" and lab[0] == "answer" and lab[1].startswith("send") and pick == 0 and want[1] == "ok":
                                    matched = True
                                if matched:
                                    script.pop(0)
                            w.apply(pick)
                            bad += w.viol
                        if not w.done():
                            bad.append("scripted history did not end")
                        elif script and not bad:
                            raise explore.InternalError(f"C12 harness: scripted history {fname} / {sname} (v{v}, {kinds}) could not be played: left {script}, "
                                                        f"outcomes {[p.outcome for p in w.pkts]}")
                        w.close()
                        for m in bad[:2]:
                            rep.add_violation(vkey("after an earlier request that failed: " + m), f"v{v} packets {list(kinds)} one after the other, first: {fname}, second: {sname} (busy status #{busy}): {m}",
                                              {"world": "c12-history", "version": v, "kinds": list(kinds), "busy": busy, "first": fname, "second": sname})
                        if busy and fname != "busy-out" and not sname.startswith("busy"):
                            pass
    return n


def main(tier: str) -> int:
    rep = report.Report("C12", tier, "model_checking")
    k = 2 if tier == "quick" else 3
    st = explore.dbdfs(("mc.checks.c12", "build"), param_list(tier), k, budget_s=(75 if tier == "quick" else 1500))
    for v, params, choices, labels in st.violations:
        rep.add_violation(vkey(v), v, {"world": "c12", "params": params, "choices": choices})
    n_hist = scripted_histories(rep, tier)
    if len(st.signatures) < 30:
        raise explore.InternalError(f"C12 vacuous: {len(st.signatures)} signatures")
    rep.coverage = {
        "states": st.steps,
        "transitions": st.steps,
        "traces_validated_against_impl": st.executions,
        "executions": st.executions,
        "max_deviations_completed": k if not st.capped else k - 1,
        "capped": st.capped,
        "exhaustive": not st.capped,
        "distinct_outcome_signatures": len(st.signatures),
        "max_depth": st.max_depth,
        "rule": "stateless deviation-bounded DFS (no state merging; 'states' = world states visited along all executions); concurrent packets of the listed kinds per version; "
                "deviations: each busy / refusal enqueue status, failed / foreign-tag / foreign-destination / duplicate / unsolicited / early confirmation, silence to the 120 s timeout, "
                "address-lookup miss, cancellation of either caller",
        "scripted_history_runs": n_hist,
        "samples": st.samples[:3],
    }
    rep.assumptions = [
        "120 s confirmation timeout and the 0.5/1.0/1.5 s retry delays are hard-coded in the oracle",
        "set-up/send blocks are judged on segments of the NCP's request log delimited by send frames",
        "ControllerApplication constructed with zigpy.util.Requests back-filled; known devices 0x1111 and 0x2222 are registered with zigpy",
    ]
    return rep.finish()


def replay(data) -> int:
    w = World(data["params"])
    bad = list(w.viol)
    for c in data["choices"]:
        if w.done():
            break
        en = w.enabled()
        print(f"t={w.loop.time():.3f} {en[c][0]}")
        w.apply(c)
        for v in w.viol:
            print("   VIOLATION:", v)
        bad += w.viol
    print([f[:2] for f in w.frames])
    print(w.signature())
    w.close()
    return 1 if bad else 0
