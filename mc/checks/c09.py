"""C09 -- bring-up negotiates the NCP's protocol version and frames everything accordingly.

Fault enumeration on the whole real stack (EZSP.connect -> startup_reset -> write_config, then a
second reset + negotiation + write_config) against a simulated NCP (reference ASH endpoint +
framing-aware EZSP simulator that ignores and records wrongly framed requests):
NCP version x device path {serial, socket://} x spontaneous start-up RSTACK {absent, early, late}
x every single line fault {loss, detectable corruption, duplication} on every wire frame of the
bring-up (thorough: every pair of faults for selected versions).
"""
from __future__ import annotations

import asyncio

from mc import explore, report
from mc.env import ezspenv, ref_ash
from mc.env.stackworld import RST_WIRE, StackWorld


class World:
    def __init__(self, params):
        self.p = params
        self.V = params["version"]
        self.sw = StackWorld(self.V, path=params["path"], spontaneous=params.get("spontaneous"))
        self.viol = []
        self.ended = False
        self.steps = 0
        self.faults = []          # (dir, kind, frame type)
        self.n2h_delivered = 0
        self.spont_fate = None    # what happened to the spontaneous start-up RSTACK (first frame from the NCP)
        self.phase_log = []
        self.task = self.sw.loop.create_task(self._workload())
        self.sw.loop.settle()

    async def _workload(self):
        ez = self.sw.ezsp
        try:
            await ez.connect(use_thread=False)
            self.phase_log.append("connected")
            await ez.startup_reset()
            self.phase_log.append(("negotiated", ez.ezsp_version, type(ez._protocol).VERSION))
            await ez.write_config({})
            self.phase_log.append("configured")
            n_first = len(self.sw.ncp.first_after_reset)
            # a later reset, as ControllerApplication._reset does it
            ez.stop_ezsp()
            if self.p.get("cmd_during_reset"):
                # another coroutine (watchdog, a send) issues a command while the reset is suspended between RST and RSTACK: it may
                # fail or wait, but whatever it puts on the wire must be framed for the state the NCP is in
                async def probe():
                    for _ in range(3):
                        await asyncio.sleep(0)
                    try:
                        await ez.nop()
                        self.phase_log.append("probe-completed")
                    except asyncio.CancelledError:
                        raise
                    except BaseException as e:  # noqa
                        self.phase_log.append(("probe-raised", type(e).__name__))

                self.probe_task = self.sw.loop.create_task(probe())
            if self.p.get("restart2"):
                # the NCP restarts on its own just then (a network co-processor daemon that crashed and came back): its RSTACK
                # reaches the host while the second start-up waits for exactly such a reset on a socket path
                sw = self.sw
                sw.ash.reset()
                sw.ncp.rebooted()
                sw.ash.up.clear()
                sw.ncp_up_seen = 0
                sw.n2h.append(ref_ash.wire(ref_ash.enc_rstack(0x0B)))
            await ez.startup_reset()
            self.phase_log.append(("renegotiated", ez.ezsp_version, type(ez._protocol).VERSION, len(self.sw.ncp.first_after_reset) - n_first))
            await ez.write_config({})
            self.phase_log.append("reconfigured")
            if self.p.get("reuse"):
                # the same EZSP object is closed and connected again (close() forgets the gateway, connect() accepts exactly that
                # state): the reset of the new connection falls back to the legacy format and negotiation is repeated
                ez.close()
                try:
                    await ez.connect(use_thread=False)
                except Exception as e:  # noqa -- an EZSP object that refuses to be connected twice is not this property's business
                    self.phase_log.append(("reuse-refused", type(e).__name__))
                    return
                n_first = len(self.sw.ncp.first_after_reset)
                await ez.startup_reset()
                self.phase_log.append(("renegotiated", ez.ezsp_version, type(ez._protocol).VERSION, len(self.sw.ncp.first_after_reset) - n_first))
                await ez.write_config({})
                self.phase_log.append("reused-and-configured")
        except BaseException as e:  # noqa
            self.phase_log.append(("exception", type(e).__name__, str(e)[:80]))
            if isinstance(e, asyncio.CancelledError):
                raise
            self.n_faults_at_exc = len(self.faults)
            if isinstance(e, asyncio.TimeoutError):
                # a bring-up that timed out (damaged RST / RSTACK) is retried once on the same connection: with no further
                # fault it must now go through, including a fresh RST
                n_rst = sum(1 for t, d, b in self.sw.wire_log if d == "h2n" and b == RST_WIRE)
                try:
                    ez.stop_ezsp()
                    await ez.startup_reset()
                    await ez.write_config({})
                    self.phase_log.append(("retry-ok", ez.ezsp_version, type(ez._protocol).VERSION,
                                           sum(1 for t, d, b in self.sw.wire_log if d == "h2n" and b == RST_WIRE) - n_rst))
                except BaseException as e2:  # noqa
                    self.phase_log.append(("retry-exception", type(e2).__name__, str(e2)[:80]))
                    if isinstance(e2, asyncio.CancelledError):
                        raise

    def enabled(self):
        if self.ended:
            return []
        sw = self.sw
        out = []
        if sw.h2n:
            out.append((("dlv", "h2n", "ok"), 0))
        elif sw.n2h:
            out.append((("dlv", "n2h", "ok"), 0))
        elif not self.task.done() and sw.ash.timer_armed() and (
                sw.loop.next_deadline() is None or sw.loop.next_deadline() - sw.loop.time() > 3.2):
            # the NCP's retransmission timer is at most 3.2 s: it fires before any longer host timer
            out.append((("T", "ncp"), 0))
        elif not self.task.done() and sw.loop.next_deadline() is not None:
            out.append((("T", "host"), 0))
        else:
            out.append((("end",), 0))
        # (the phases before the re-use are covered with faults by the configurations without it)
        if self.steps < 3000 and not self.task.done() and (not (self.p.get("reuse") or self.p.get("restart2") or self.p.get("cmd_during_reset")) or "reconfigured" in self.phase_log or
                                                           (self.p.get("restart2") and "configured" in self.phase_log)):
            for line, q in (("h2n", sw.h2n), ("n2h", sw.n2h)):
                if q:
                    for f in ("drop", "corrupt", "dup") + (("dup2",) if line == "n2h" else ()):
                        out.append((("dlv", line, f), 1))
        return out

    def apply(self, i):
        label = self.enabled()[i][0]
        self.steps += 1
        self.viol = []
        sw = self.sw
        if label[0] == "end":
            self.ended = True
            self._final()
            for e in sw.loop.escaped_callback_exceptions():
                self.viol.append(f"an exception escaped from a protocol / loop callback during bring-up: {e}")
            return
        if label[0] == "dlv":
            q = sw.h2n if label[1] == "h2n" else sw.n2h
            if label[2] != "ok":
                self.faults.append((label[1], label[2], frame_kind(q[0])))
            if label[1] == "n2h":
                if self.n2h_delivered == 0 and self.p.get("spontaneous") == "early":
                    self.spont_fate = label[2]
                self.n2h_delivered += 1
            (sw.deliver_h2n if label[1] == "h2n" else sw.deliver_n2h)(label[2])
        elif label == ("T", "host"):
            sw.host_timers()
        else:
            sw.ncp_timeout()

    def _final(self):
        sw, V = self.sw, self.V
        ncp = sw.ncp
        log = self.phase_log
        exc = next((x for x in log if isinstance(x, tuple) and x[0] == "exception"), None)
        fault_on_reset = any(k in ("RST", "RSTACK") for _, _, k in self.faults)
        if not self.task.done():
            self.viol.append(f"bring-up never finished (phases {log})")
            return
        # nothing may ever be framed wrongly, whatever happened
        for t, raw, why in ncp.misframed[:2]:
            self.viol.append(f"NCP v{V} received a wrongly framed request {raw.hex()}: {why}")
        for k, raw in enumerate(ncp.first_after_reset):
            if not (len(raw) == 4 and raw[1] == 0x00 and raw[2] == 0x00 and raw[3] == 4):
                self.viol.append(f"first EZSP frame after reset #{k + 1} is {raw.hex()}, expected the legacy 3-byte-header version(4) query")
        # the first frame the host originates (ACK/NAK reactions to incoming bytes aside) is the CANCEL-prefixed RST,
        # unless the start-up reset was seen on a socket path
        first_host = next((b for t, d, b in sw.wire_log if d == "h2n" and frame_kind(b) not in ("ACK", "NAK")), None)
        startup_seen = self.p["path"].startswith("socket://") and self.spont_fate in ("ok", "dup", "dup2")
        if first_host is not None and not startup_seen and first_host != RST_WIRE:
            self.viol.append(f"first frame the host sends is {first_host.hex()}, expected the CANCEL-prefixed RST frame 1ac038bc7e")
        # A spontaneous RSTACK that is still in flight when the host sends its own RST is indistinguishable from the
        # answer to that RST (inherent to ASH): the second RSTACK then resets the host's counters mid-stream.  Such a
        # start-up may end in TimeoutError, like a damaged RST/RSTACK.
        if self.p.get("spontaneous") == "late" or (self.p.get("spontaneous") == "early" and not startup_seen):
            fault_on_reset = True
        if exc is not None:
            if exc[1] == "TimeoutError" and fault_on_reset:
                # a lost / damaged RST or RSTACK may end the bring-up with a timeout; the retry must then succeed
                retry = next((x for x in log if isinstance(x, tuple) and x[0].startswith("retry")), None)
                if retry is None or retry[0] != "retry-ok":
                    if len(self.faults) == getattr(self, "n_faults_at_exc", 0) and self.p.get("spontaneous") != "late":   # no fault hit the retry itself
                        self.viol.append(f"after a timed-out bring-up (faults {self.faults}) the retry on the same connection failed: {retry}")
                elif retry[1] != V or retry[3] < 1:
                    self.viol.append(f"retry after a timed-out bring-up: negotiated v{retry[1]} (NCP v{V}), {retry[3]} new RST frame(s) written")
                return
            self.viol.append(f"bring-up raised {exc[1]}: {exc[2]} (NCP v{V}, faults {self.faults}, phases {[x for x in log if x != exc]})")
            return
        neg = [x for x in log if isinstance(x, tuple) and x[0] in ("negotiated", "renegotiated")]
        for x in neg:
            if x[1] != V:
                self.viol.append(f"negotiated protocol version {x[1]}, the NCP speaks {V}")
            want_table = V if V in ezspenv.VERSIONS else 14
            if x[2] != want_table:
                self.viol.append(f"command tables of v{x[2]} in use for NCP version {V}, expected v{want_table}")
        reused = self.p.get("reuse") and not any(isinstance(x, tuple) and x[0] == "reuse-refused" for x in log)
        if "reconfigured" not in log or (reused and "reused-and-configured" not in log):
            self.viol.append(f"bring-up ended early: {log}")
        # when V differs from 4 a second version query in V's own layout must follow each legacy one
        if V != 4:
            own = [r for r in ncp.requests if r[2] == "version" and r[1] == "own"]
            if len(own) < (3 if reused else 2):
                self.viol.append(f"expected a confirming version({V}) query in the v{V} layout after each negotiation, saw {len(own)}")
            for r in own:
                if r[3]["desiredProtocolVersion"] != (V & 0xFF):
                    self.viol.append(f"confirming version query asked for {r[3]['desiredProtocolVersion']}, expected {V}")
        if len(ncp.first_after_reset) < (3 if reused else 2):
            self.viol.append(f"expected {3 if reused else 2} resets of the NCP, saw {len(ncp.first_after_reset)}")

    def done(self):
        return self.ended

    def finish(self):
        return []

    def signature(self):
        return (tuple(str(x) for x in self.phase_log[-2:]), tuple(self.faults))

    def close(self):
        self.sw.close()


def frame_kind(wire: bytes) -> str:
    body = wire[:-1].lstrip(bytes([ref_ash.CAN]))
    try:
        d = ref_ash.decode(ref_ash.unstuff(body))
    except Exception:
        return "?"
    return d[0] if d else "?"


class DfsWorld:
    def __init__(self, params):
        self.w = World(params)
        self.all = []

    def done(self):
        return self.w.done()

    def enabled(self):
        return self.w.enabled()

    def apply(self, i):
        self.w.apply(i)
        self.all += self.w.viol

    def finish(self):
        return self.all

    def signature(self):
        return self.w.signature()

    def close(self):
        self.w.close()


def build(params):
    return DfsWorld(params)


def vkey(msg, params):
    import re

    m = re.sub(r"\b[0-9a-f]{8,}\b", "<hex>", msg)
    m = re.sub(r"\(NCP v.*", "", m)
    m = re.sub(r"#\d+|\b\d+\b", "#", m)
    cls = "v>=15" if params["version"] > 14 else "v<=14"
    return f"C09|{cls}|" + re.sub(r"\s+", " ", m).strip()[:90]


def param_list(tier):
    versions = [4, 5, 7, 8, 14, 15] if tier == "quick" else list(range(4, 17)) + [255]
    out = []
    for v in versions:
        out.append({"version": v, "path": "/dev/ttyFAKE", "spontaneous": None})
        out.append({"version": v, "path": "socket://host:1", "spontaneous": "early"})
        if tier != "quick" or v in (8, 15):
            out.append({"version": v, "path": "socket://host:1", "spontaneous": None})
            out.append({"version": v, "path": "socket://host:1", "spontaneous": "late"})
            out.append({"version": v, "path": "/dev/ttyFAKE", "spontaneous": "early"})
        if tier != "quick" or v in (4, 8, 15):
            out.append({"version": v, "path": "/dev/ttyFAKE", "spontaneous": None, "reuse": True})
        if tier != "quick" or v in (5, 8, 14):
            out.append({"version": v, "path": "/dev/ttyFAKE", "spontaneous": None, "cmd_during_reset": True})
        if tier != "quick" or v in (7, 8, 15):
            # the second start-up (socket path) sees a reset the NCP made on its own
            out.append({"version": v, "path": "socket://host:1", "spontaneous": "early", "restart2": True})
    return out


def main(tier: str) -> int:
    rep = report.Report("C09", tier, "fault_enumeration")
    st = explore.dbdfs(("mc.checks.c09", "build"), param_list(tier), 1, budget_s=(80 if tier == "quick" else 1200), split_depth=1)
    st2 = None
    if tier != "quick":
        p2 = [{"version": v, "path": p, "spontaneous": s} for v in (4, 8, 14) for p, s in (("/dev/ttyFAKE", None), ("socket://host:1", "early"))]
        st2 = explore.dbdfs(("mc.checks.c09", "build"), p2, 2, budget_s=2400, split_depth=1)
    for s in (st, st2):
        if s is None:
            continue
        for v, params, choices, labels in s.violations:
            rep.add_violation(vkey(v, params), v, {"world": "c09", "params": params, "choices": choices})
    if st.executions < 500 or len(st.signatures) < 10:
        raise explore.InternalError(f"C09 vacuous: {st.executions} executions, {len(st.signatures)} signatures")
    ex = st.executions + (st2.executions if st2 else 0)
    rep.coverage = {
        "evaluations": ex,
        "distinct_nontrivial": len(st.signatures) + (len(st2.signatures) if st2 else 0),
        "single_fault_executions": st.executions,
        "double_fault_executions": st2.executions if st2 else 0,
        "capped": st.capped or bool(st2 and st2.capped),
        "exhaustive": not (st.capped or bool(st2 and st2.capped)),
        "max_depth": st.max_depth,
        "configurations": len(param_list(tier)),
        "rule": "per (NCP version, device path, spontaneous start-up RSTACK variant): the fault-free bring-up + second reset, and one execution for every (wire frame, fault in {loss, "
                "detectable corruption, duplication (separate reads, or both copies in one read)}) (thorough: every pair for v4/v8/v14); distinct = distinct (final phases, fault placement) signatures",
        "samples": st.samples[:3],
    }
    rep.assumptions = [
        "simulated NCP = reference ASH endpoint + EZSP simulator that answers only correctly framed requests (legacy 3-byte header until the version handshake, then the NCP's own layout); NCP versions above 14 use the v14 command tables and the v8+ header layout",
        "a fault on an RST or RSTACK frame may end the bring-up with TimeoutError; faults on DATA/ACK/NAK frames must be absorbed",
        "bellows.uart.zigpy.serial.create_serial_connection is replaced by a fake that wires the real AshProtocol to the simulated line; use_thread=False",
    ]
    return rep.finish()


def replay(data) -> int:
    w = World(data["params"])
    bad = []
    for c in data["choices"]:
        if w.done():
            break
        en = w.enabled()
        if en[c][1] or en[c][0][0] == "end":
            print(f"t={w.sw.loop.time():.3f} {en[c][0]}")
        w.apply(c)
        bad += w.viol
    while not w.done():
        w.apply(0)
        bad += w.viol
    print(w.phase_log)
    print("requests:", [(r[1], r[2]) for r in w.sw.ncp.requests][:12], "...")
    for v in bad:
        print("VIOLATION:", v)
    w.close()
    return 1 if bad else 0
