"""C10 -- NCP failure or connection loss at any moment is reported and never hangs.

Crash-point enumeration on the whole real stack (EZSP -> Gateway -> AshProtocol -> fake serial
transport) against the simulated NCP, after a real bring-up and with an application callback
registered.  Workloads: idle; one command in flight; one in flight + one queued; reset in
progress; reset in progress with an NCP that does not answer; each followed by a keep-alive
command 10 s later.  Before and after every step of the fault-free trace one failure is
injected: ERROR(0x51 / 0x80), unsolicited RSTACK(0x00 / 0x02 / 0x06), NCP silent from here on,
port error (connection_lost(OSError)), EOF -- each also in the same loop iteration as the
earliest pending host timer -- plus the control "deliberate close".
"""
from __future__ import annotations

import asyncio

from mc import explore, report
from mc.env import ref_ash
from mc.env.stackworld import StackWorld

from mc import tunables

CMD_TIMEOUT = tunables.ezsp_cmd_timeout()          # "the command timeout"
LINK_BUDGET = tunables.ash_attempts() * 3.2        # "the link timeout": configured attempts x the protocol's maximum ACK timeout
EPS = 1e-9
KINDS = ["error51", "error80", "rstack00", "rstack02", "rstack06", "silent", "silent-impatient", "port_error", "eof", "close"]


class World:
    def __init__(self, params):
        self.p = params
        self.sw = StackWorld(params.get("version", 8), path=params.get("path", "/dev/ttyFAKE"))
        sw = self.sw
        self.viol = []
        self.ended = False
        self.steps = 0
        self.fail = None           # (kind, t_injected)
        self.calls = []            # (name, task, started_at)
        self.post_checked = False
        self.n_writes_at_notice = None
        self.coincidence = params.get("coincidence", True)
        self.line_faults_left = 1
        # bring-up (fault free)
        boot = sw.loop.create_task(self._boot())
        sw.loop.settle()
        self._drain(lambda: boot.done())
        if not boot.done() or boot.exception() is not None:
            raise explore.InternalError(f"C10 bring-up failed: {boot.exception() if boot.done() else 'pending'}")
        if params.get("prior"):
            # a failure the NCP signalled while no application callback was registered (ignored by design); the
            # application attaches afterwards and must still be told about every later failure
            code = int(params["prior"][-2:], 16)
            sw.ash.failed = True
            sw.n2h.clear()
            sw.loop.call_soon(sw.proto.data_received, ref_ash.wire(ref_ash.enc_error(code)))
            sw.loop.settle()
            if sw.app_events:
                raise explore.InternalError("C10: application events before any callback was registered")
        sw.register_app_callback()
        self.t0 = sw.loop.time()
        self._start_workload(params["workload"])
        sw.loop.settle()

    async def _boot(self):
        ez = self.sw.ezsp
        await ez.connect(use_thread=False)
        await ez.startup_reset()

    def _drain(self, until):
        sw = self.sw
        n = 0
        while not until() and n < 5000:
            n += 1
            if sw.h2n:
                sw.deliver_h2n()
            elif sw.n2h:
                sw.deliver_n2h()
            elif sw.loop.next_deadline() is not None:
                sw.host_timers()
            else:
                break

    # -- workload ---------------------------------------------------------------------------
    def _call(self, name, coro_fn, delay=0.0):
        rec = {"name": name, "outcome": None, "t_done": None, "t_start": None}

        async def run():
            if delay:
                await asyncio.sleep(delay)
            rec["t_start"] = self.sw.loop.time()
            try:
                await coro_fn()
            except asyncio.CancelledError:
                rec["outcome"] = "cancelled"
                raise
            except BaseException as e:  # noqa
                rec["outcome"] = "raised:" + type(e).__name__
            else:
                rec["outcome"] = "ok"
            finally:
                rec["t_done"] = self.sw.loop.time()

        rec["task"] = self.sw.loop.create_task(run())
        self.calls.append(rec)

    def _start_workload(self, wl):
        ez = self.sw.ezsp
        if wl in ("one", "two"):
            self._call("getEui64", lambda: ez.getEui64())
        if wl == "two":
            self._call("getNodeId", lambda: ez.getNodeId())
        async def full_reset():
            # what ControllerApplication._reset does (minus the configuration write)
            ez.stop_ezsp()
            await ez.startup_reset()

        if wl == "reset":
            self._call("reset", full_reset)
        if wl == "reset-mute":
            self.sw.ncp.silent = True
            self._mute_ash = True
            self._call("reset", full_reset)
        self._call("keepalive", lambda: ez.nop(), delay=10.0)

    _mute_ash = False

    # -- failure injection --------------------------------------------------------------------
    def _inject(self, kind, with_timer, same_read=False):
        sw = self.sw
        if with_timer:
            # the failure lands in the same loop iteration as the earliest host timer: time has advanced to that deadline
            sw.loop._vtime = max(sw.loop._vtime, sw.loop.next_deadline())
        now = sw.loop.time()
        self.fail = (kind, now)
        self.in_progress = [c for c in self.calls if c["t_start"] is not None and c["outcome"] is None]
        if kind.startswith("error") or kind.startswith("rstack"):
            code = int(kind[-2:], 16)
            frame = ref_ash.enc_error(code) if kind.startswith("error") else ref_ash.enc_rstack(code)
            if kind.startswith("rstack"):
                sw.ash.reset()
                sw.ncp.rebooted()
            else:
                sw.ash.failed = True
            # same_read: the frame the NCP had already put on the line (an ACK, a response, the RSTACK answering a reset) and the
            # failure frame reach the host in ONE read
            head = bytes(sw.n2h[0]) if (same_read and sw.n2h) else b""
            sw.n2h.clear()
            if not with_timer:
                # run exactly the loop iteration that processes the read, then look at the port: once the failure frame has been
                # processed nothing more may be written (a command that was queued behind the answered one must raise, not go out)
                sw.loop.settle()
                sw.loop.call_soon(sw.proto.data_received, head + ref_ash.wire(frame))
                sw.loop.run_batch()
                n_after_read = len(sw.tr.writes)
                sw.loop.settle()
                late = [w for _, w in sw.tr.writes[n_after_read:]]
                if late:
                    self.viol.append(f"failure {kind}: {len(late)} write(s) to the port after the read that carried the failure had been processed: "
                                     f"{[x.hex() for x in late[:2]]}")
            else:
                sw.loop.call_soon(sw.proto.data_received, head + ref_ash.wire(frame))
        elif kind in ("silent", "silent-impatient"):
            self._mute_ash = True
            sw.ncp.silent = True
            sw.n2h.clear()
            sw.h2n.clear()
            # a silent NCP is only noticed by traffic: a further keep-alive 10 s after the NCP went silent
            if kind == "silent":
                self._call("probe", lambda: sw.ezsp.nop(), delay=10.0)
            else:
                # ... issued by callers that give up after 4 s each (well inside the link's retry budget): the link must still
                # run its budget out and report the failure although nobody waits for the individual command any more
                async def impatient():
                    try:
                        await asyncio.wait_for(sw.ezsp.nop(), 4.0)
                    except asyncio.TimeoutError:
                        pass
                for d in (10.0, 20.0, 30.0):
                    self._call("probe", impatient, delay=d)
        elif kind == "port_error":
            sw.lost = True
            sw.loop.call_soon(sw.tr.abort_with, OSError("device disappeared"))
        elif kind == "eof":
            sw.lost = True

            def _eof():
                keep = sw.proto.eof_received()
                if not keep:
                    sw.tr.close()
            sw.loop.call_soon(_eof)
        elif kind == "close":
            sw.ezsp.close()
        if with_timer:
            sw.loop.fire_timers()
        sw.loop.settle()

    def notice(self):
        """Time of the first controller-reset request, or None."""
        for t, name, args in self.sw.app_events:
            if name == "_reset_controller_application":
                return t
        return None

    # -- explorer interface -------------------------------------------------------------------
    def enabled(self):
        if self.ended:
            return []
        sw = self.sw
        out = []
        busy = any(not c["task"].done() for c in self.calls)
        if sw.h2n and not sw.lost:
            out.append((("dlv", "h2n"), 0))
        elif sw.n2h and not sw.lost:
            out.append((("dlv", "n2h"), 0))
        elif busy and sw.ash.timer_armed() and not self._mute_ash and (
                sw.loop.next_deadline() is None or sw.loop.next_deadline() - sw.loop.time() > 3.2):
            out.append((("T-ncp",), 0))     # the NCP's retransmission timer (<= 3.2 s) fires before longer host timers
        elif busy and sw.loop.next_deadline() is not None:
            out.append((("T",), 0))
        elif (self.fail is not None and self.fail[0].startswith("silent") and self.notice() is None and sw.loop.next_deadline() is not None
              and sw.loop.time() < self.fail[1] + 10.0 + CMD_TIMEOUT + LINK_BUDGET + 30.0):
            out.append((("T",), 0))     # no caller is waiting any more, but the link is still retransmitting in the background
        else:
            out.append((("end",), 0))
        if self.p.get("line_faults") and self.fail is None and self.line_faults_left > 0 and not sw.lost:
            for line, q in (("h2n", sw.h2n), ("n2h", sw.n2h)):
                if q and not (line == "h2n" and self._mute_ash):
                    for f in ("drop", "corrupt", "dup"):
                        out.append((("dlv", line, f), 1))
        if self.fail is None and self.steps < 200:
            for k in KINDS:
                if k.startswith("silent") and self.p.get("prior"):
                    continue    # the link is already in the failed state: nothing is sent, silence cannot be observed
                out.append((("fail", k), 1))
                if self.coincidence and k != "close" and sw.loop.next_deadline() is not None:
                    out.append((("fail", k, "+timer"), 1))
                if self.coincidence and k.startswith(("error", "rstack")) and sw.n2h and not sw.lost:
                    out.append((("fail", k, "+read"), 1))
        return out

    def apply(self, i):
        label = self.enabled()[i][0]
        self.steps += 1
        self.viol = []
        sw = self.sw
        k = label[0]
        if k == "end":
            self.ended = True
            self._final()
            return
        if k == "dlv":
            fault = label[2] if len(label) > 2 else "ok"
            if fault != "ok":
                self.line_faults_left -= 1
                q = sw.h2n if label[1] == "h2n" else sw.n2h
                from mc.checks.c09 import frame_kind

                self.faulted_kind = frame_kind(q[0])
            if label[1] == "h2n":
                if self._mute_ash:
                    sw.h2n.pop(0)
                else:
                    sw.deliver_h2n(fault)
            else:
                sw.deliver_n2h(fault)
        elif k == "T":
            sw.host_timers()
        elif k == "T-ncp":
            sw.ncp_timeout()
        elif k == "fail":
            self._inject(label[1], len(label) > 2 and label[2] == "+timer", same_read=len(label) > 2 and label[2] == "+read")
        self._after_step()

    def _after_step(self):
        sw = self.sw
        t_notice = self.notice()
        if t_notice is not None and not self.post_checked:
            self.post_checked = True
            self.n_writes_at_notice = len(sw.tr.writes) if sw.tr else 0
            # (2) EZSP stopped: a new command raises at once and writes nothing.  Judged by behaviour only: which flag marks the
            # layer as stopped and which exception type the command raises are not the property's business (when the failure
            # frame shares a read with the RSTACK that answers a reset in progress, the resumed reset re-marks EZSP as running on
            # a gateway that is already gone and commands raise AttributeError -- immediately, writing nothing).
            n = len(sw.tr.writes)
            task = sw.loop.create_task(sw.ezsp.getNodeId())
            sw.loop.settle()
            if not task.done():
                self.viol.append("a command issued after the failure did not raise immediately")
                task.cancel()
                sw.loop.settle()
            elif task.exception() is None:
                self.viol.append("a command issued after the failure returned normally")
            if len(sw.tr.writes) != n:
                self.viol.append("a command issued after the failure wrote to the port")

    def _final(self):
        sw = self.sw
        for e in sw.loop.escaped_callback_exceptions():
            self.viol.append(f"an exception escaped from a protocol / loop callback: {e}")
        kind, t_fail = self.fail if self.fail else (None, None)
        t_notice = self.notice()
        n_requests = sum(1 for _, name, _ in sw.app_events if name == "_reset_controller_application")
        for c in self.calls:
            if not c["task"].done():
                self.viol.append(f"{c['name']} call never finished (failure {kind})")
        if kind is None:
            if n_requests:
                self.viol.append("controller-reset request without any failure")
            # a lost / damaged / duplicated RST or RSTACK may make the reset time out (as in C09); any other line fault is absorbed
            reset_frame_hit = getattr(self, "faulted_kind", None) in ("RST", "RSTACK")
            for c in self.calls:
                if c["outcome"] != "ok" and self.p["workload"] != "reset-mute" and not reset_frame_hit and not self.p.get("prior"):
                    self.viol.append(f"{'line fault on a ' + self.faulted_kind + ' frame' if hasattr(self, 'faulted_kind') else 'fault-free run'}: {c['name']} ended with {c['outcome']}")
            return
        if kind == "close":
            if n_requests:
                self.viol.append("a deliberate close produced a controller-reset request")
            return
        # (1) the application is told.  While a reset is in progress EZSP is stopped and nothing is sent, so a silent NCP
        # is reported to the caller of the reset (its call raises) rather than through the callback.
        # (a reset that failed earlier leaves EZSP stopped: nothing is sent any more, the failure was reported by that call)
        reset_raised = any(c["name"] == "reset" and (c["outcome"] or "").startswith("raised") for c in self.calls)
        if t_notice is None and kind.startswith("silent") and reset_raised:
            pass
        elif t_notice is None:
            self.viol.append(f"failure {kind} injected at +{t_fail - self.t0:.3f}s: the application never received a controller-reset request")
        else:
            limit = t_fail + EPS if not kind.startswith("silent") else t_fail + 10.0 + CMD_TIMEOUT + LINK_BUDGET + EPS
            if t_notice > limit:
                self.viol.append(f"failure {kind} at +{t_fail - self.t0:.3f}s: controller-reset request only at +{t_notice - self.t0:.3f}s")
            reason = next(a for t, n, a in sw.app_events if n == "_reset_controller_application")
            if kind.startswith(("error", "rstack")):
                code = int(kind[-2:], 16)
                if not (reason and int(reason[0]) == code if not isinstance(reason[0], str) else False):
                    self.viol.append(f"failure {kind}: controller-reset request carries reason {reason!r}, expected code {code:#x}")
            # nothing written after the request
            if self.n_writes_at_notice is not None and len(sw.tr.writes) != self.n_writes_at_notice:
                self.viol.append(f"failure {kind}: {len(sw.tr.writes) - self.n_writes_at_notice} write(s) to the port after the controller-reset request")
        # (3) calls in progress at the failure end within command timeout + link budget
        for c in getattr(self, "in_progress", []):
            if c["t_done"] is not None and c["t_done"] > t_fail + CMD_TIMEOUT + LINK_BUDGET + EPS:
                self.viol.append(f"failure {kind}: {c['name']} call in progress at the failure ended only after {c['t_done'] - t_fail:.1f}s")

    def done(self):
        return self.ended

    def finish(self):
        return []

    def signature(self):
        return (self.fail[0] if self.fail else None, tuple((c["name"], c["outcome"]) for c in self.calls), self.notice() is not None)

    def close(self):
        self.sw.close()


class DfsWorld:
    def __init__(self, params):
        self.w = World(params)
        self.all = []

    def done(self):
        return self.w.done()

    def enabled(self):
        return self.w.enabled()

    def apply(self, i):
        self.w.apply(i)
        self.all += self.w.viol

    def finish(self):
        return self.all

    def signature(self):
        return self.w.signature()

    def close(self):
        self.w.close()


def build(params):
    return DfsWorld(params)


def vkey(msg, params):
    import re

    m = re.sub(r"[-+]?\d+\.\d+s?", "#", msg)
    m = re.sub(r"\(.*?\)", "", m)
    return f"C10|{params['workload']}{'+prior-unreported-error' if params.get('prior') else ''}|" + re.sub(r"\s+", " ", m).strip()[:100]


def param_list(tier):
    wls = ["idle", "one", "two", "reset", "reset-mute"]
    versions = [4, 8, 14] if tier == "quick" else [4, 5, 7, 8, 9, 13, 14, 15]
    out = [{"workload": w, "version": v} for v in versions for w in wls]
    out += [{"workload": w, "version": v, "path": "socket://h:1"} for w in wls for v in ((8,) if tier == "quick" else (4, 8, 14))]
    # an earlier ERROR frame went unreported because no application callback was registered yet
    out += [{"workload": w, "version": v, "prior": pr} for v in ((8,) if tier == "quick" else (4, 8, 14)) for w in ("idle", "one", "reset")
            for pr in ("error51", "error80")]
    return out


def main(tier: str) -> int:
    rep = report.Report("C10", tier, "fault_enumeration")
    st = explore.dbdfs(("mc.checks.c10", "build"), param_list(tier), 1, budget_s=(80 if tier == "quick" else 1500), split_depth=1)
    # one line fault (loss / corruption / duplication of any wire frame) followed by one failure
    p2 = [dict(p, line_faults=True) for p in param_list(tier) if p["version"] in ((8,) if tier == "quick" else (4, 8, 14)) and "path" not in p]
    st2 = explore.dbdfs(("mc.checks.c10", "build"), p2, 2, budget_s=(60 if tier == "quick" else 1500), split_depth=1)
    for v, params, choices, labels in st2.violations:
        rep.add_violation(vkey(v, params), v, {"world": "c10", "params": params, "choices": choices})
    for v, params, choices, labels in st.violations:
        rep.add_violation(vkey(v, params), v, {"world": "c10", "params": params, "choices": choices})
    if st.executions < 300 or len(st.signatures) < 15:
        raise explore.InternalError(f"C10 vacuous: {st.executions} executions, {len(st.signatures)} signatures")
    rep.coverage = {
        "evaluations": st.executions + st2.executions,
        "distinct_nontrivial": len(st.signatures) + len(st2.signatures),
        "single_failure_executions": st.executions,
        "line_fault_plus_failure_executions": st2.executions,
        "capped": st.capped or st2.capped,
        "exhaustive": not (st.capped or st2.capped),
        "max_depth": st.max_depth,
        "failure_kinds": KINDS,
        "workloads": [p["workload"] for p in param_list(tier)],
        "rule": "per workload: the fault-free execution, and one execution per (step of the fault-free trace, failure kind, alone | in the same loop iteration as the earliest host timer); "
                "distinct = distinct (failure kind, call outcomes, application notified) signatures",
        "samples": st.samples[:3],
    }
    rep.assumptions = [
        "command timeout and attempt count are read from bellows (tunables the property names but does not fix), the 3.2 s ACK-timeout maximum is the ASH specification's; the keep-alive is issued 10 s after the workload starts",
        "for a silent NCP the controller-reset request must arrive by injection + 10 s (keep-alive) + command timeout + link budget",
        "'prior' workloads: an ERROR frame is delivered before the application callback is registered (ignored by design, link left failed), then the callback is registered and the failures are injected",
        "'+read': the failure frame arrives in the same read as the frame the NCP had already put on the line; 'silent-impatient': the NCP goes silent and the callers of the following keep-alives give up after 4 s each",
        "failures are injected after a fault-free bring-up, once an application callback is registered; full stack with use_thread=False on one hand-stepped loop",
    ]
    return rep.finish()


def replay(data) -> int:
    w = World(data["params"])
    bad = []
    for c in data["choices"]:
        if w.done():
            break
        en = w.enabled()
        print(f"t={w.sw.loop.time():.3f} {en[c][0]}")
        w.apply(c)
        for v in w.viol:
            print("   VIOLATION:", v)
        bad += w.viol
    print(w.signature(), [(round(t, 3), n) for t, n, a in w.sw.app_events])
    lg = w.sw.loop.drain_exc_log()
    if lg:
        print("loop exception log:", [(c.get("message"), repr(c.get("exception"))) for c in lg])
    w.close()
    return 1 if bad else 0
