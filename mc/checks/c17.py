"""C17 -- event-completed operations never miss their completing event or leak listeners.

Complete permutation enumeration: for each operation {formNetwork, leaveNetwork, network
bring-up (_ensure_network_running), startScan} every order of every subset of its event set
{command response (ok / each refusal), matching status event (x2), non-matching status event,
result callbacks, completion callback (ok / error), timer expiry, caller cancellation} is
delivered to the real ``EZSP`` / ``ControllerApplication`` code (real handler of v4, v8, v14,
fake gateway, hand-stepped loop, virtual clock).  A 30-line reference decides the outcome of
every sequence; after the operation ends, left-over events are still delivered, listener
tables are inspected and the operation is run once more from the state reached.
"""
from __future__ import annotations

import asyncio
import itertools

from mc import explore, report, gen_values as gv
from mc.env import appenv, ezspenv
from mc.vloop import VLoop

from mc import tunables

CMD_TIMEOUT = tunables.ezsp_cmd_timeout()      # tunables the property names ("the operation timeout") but does not fix
OP_TIMEOUT = tunables.network_ops_timeout()
UP_TIMEOUT = tunables.network_up_timeout()      # bring-up waits with its own tunable (application.NETWORK_UP_TIMEOUT_S)
EPS = 1e-9


class Ctx:
    def __init__(self, version, op, loop=None):
        import bellows.types as t

        self.t = t
        self.version, self.op = version, op
        self.loop = loop or VLoop().enter()
        self.app, self.ezsp, self.gw, self.ncp = appenv.make_app(self.loop, version)
        self.gw.on_send = None           # frames are answered by hand
        if op == "ensure":
            # the application's own callback handler is registered on the EZSP object, as after start_network(): what it makes of
            # the status events it sees must not let a later bring-up skip the command or the event
            self.ezsp.add_callback(self.app.ezsp_callback_handler)
        self.cls = type(self.ezsp._protocol)
        self.base_callbacks = len(self.ezsp._callbacks) if hasattr(getattr(self.ezsp, "_callbacks", None), "__len__") else 0
        from mc import leaks as lk

        self.futures_before = lk.count_futures(self.ezsp)
        self.answered = 0xF0             # sequence number of the last command the NCP answered (what callbacks carry)

    # -- frames ---------------------------------------------------------------------
    def status(self, name):
        """Status value of the version's family."""
        t = self.t
        if self.version >= 14:
            return {"ok": t.sl_Status.OK, "up": t.sl_Status.NETWORK_UP, "down": t.sl_Status.NETWORK_DOWN, "fail": t.sl_Status.INVALID_STATE,
                    "not_joined": t.sl_Status.NOT_JOINED, "other": t.sl_Status.ZIGBEE_NETWORK_OPENED}[name]
        return {"ok": t.EmberStatus.SUCCESS, "up": t.EmberStatus.NETWORK_UP, "down": t.EmberStatus.NETWORK_DOWN, "fail": t.EmberStatus.INVALID_CALL,
                "not_joined": t.EmberStatus.NOT_JOINED, "other": t.EmberStatus.NETWORK_OPENED}[name]

    def frame(self, name, vals, seq, callback=False):
        cid, tx, rx = self.cls.COMMANDS[name]
        return ezspenv.enc_response_hdr(self.version, seq, cid, callback=callback) + ezspenv.encode_values(rx, vals)

    def last_request(self):
        data = self.gw.sent[-1][1]
        seq, fid, _ = ezspenv.dec_hdr(self.version, data)
        name = next(n for n, v in self.cls.COMMANDS.items() if v[0] == fid)
        return seq, name

    def rx(self, frame):
        self.ezsp.frame_received(frame)
        self.loop.settle()

    def close(self):
        self.loop.shutdown()


def start_op(ctx):
    """Start the operation; returns (task, name of the command whose response is 'the response')."""
    t = ctx.t
    op = ctx.op
    if op == "form":
        params = gv.one(t.EmberNetworkParameters, "mid")
        task = ctx.loop.create_task(ctx.ezsp.formNetwork(params))
    elif op == "leave":
        task = ctx.loop.create_task(ctx.ezsp.leaveNetwork())
    elif op == "ensure":
        n_sent = len(ctx.gw.sent)
        task = ctx.loop.create_task(ctx.app._ensure_network_running())
        ctx.loop.settle()
        ctx.skipped_query = len(ctx.gw.sent) == n_sent or ctx.last_request()[1] != "networkState"
        if ctx.skipped_query:
            return task
        seq, name = ctx.last_request()
        ctx.rx(ctx.frame("networkState", [t.EmberNetworkStatus.NO_NETWORK], seq))
        ctx.answered = seq
    elif op == "scan":
        task = ctx.loop.create_task(ctx.ezsp.startScan(t.EzspNetworkScanType.ENERGY_SCAN, t.Channels.ALL_CHANNELS, 3))
    ctx.loop.settle()
    return task


MATCH = {"form": "up", "leave": "down", "ensure": "up"}
NONMATCH = {"form": "down", "leave": "up", "ensure": "down"}
REFUSALS = {"form": ["fail"], "leave": ["fail"], "ensure": ["not_joined", "fail"], "scan": ["fail"]}


def event_sets(op, tier):
    if op == "scan":
        base = ["resp", "r1", "r2", "complete", "T", "cancel"]
        variants = {"resp": ["ok"] + REFUSALS[op], "complete": ["ok", "err"]}
    else:
        base = ["resp", "match", "match2", "nonmatch", "T", "cancel"]
        variants = {"resp": ["ok"] + REFUSALS[op]}
    seqs = []
    for k in range(0, len(base) + 1):
        for perm in itertools.permutations(base, k):
            slots = [variants.get(e, [None]) for e in perm]
            for combo in itertools.product(*slots):
                seqs.append(tuple((e, v) for e, v in zip(perm, combo)))
    return seqs


def reference(op, events):
    """Outcome of the operation and the index of the event that ends it (None: still pending at the end)."""
    responded = None
    matched = False
    completed = None
    results_mand, results_opt = [], []
    for i, (e, v) in enumerate(events):
        if e == "resp":
            responded = v
            if v != "ok":
                return ("raise", i, None, None)
            if op == "scan":
                if completed is not None:
                    return (("ok" if completed == "ok" else "raise"), i, results_mand, results_opt)
            elif matched:
                return ("ok", i, None, None)
        elif e in ("match", "match2"):
            matched = True
            if responded == "ok":
                return ("ok", i, None, None)
        elif e in ("r1", "r2"):
            (results_mand if completed is None else results_opt).append(e)
        elif e == "complete":
            if completed is None:
                completed = v
                if responded == "ok":
                    return (("ok" if v == "ok" else "raise"), i, results_mand, results_opt)
        elif e == "T":
            return ("timeout", i, None, None)
        elif e == "cancel":
            return ("cancelled", i, None, None)
    return ("pending", None, None, None)


def run_sequence(version, op, events, second=True):
    """Returns (violations, signature)."""
    ctx = Ctx(version, op)
    t = ctx.t
    viol = []
    try:
        if op == "scan":
            # a result that arrives before the scan is issued must not be returned
            ctx.rx(ctx.frame("energyScanResultHandler", [11, -90], 0, callback=True))
        task = start_op(ctx)
        t_issue = ctx.loop.time()
        seq, cmd = ctx.last_request()
        exp_kind, exp_idx, mand, opt = reference(op, events)
        ended_at = None
        t_resp = None
        t_resp_at_T = None
        result_vals = {"r1": [12, -40], "r2": [13, -41]}
        for i, (e, v) in enumerate(events):
            skip = False
            if e == "resp":
                t_resp = ctx.loop.time()
                st = ctx.status(v if v != "ok" else "ok")
                ctx.rx(ctx.frame(cmd, [st], seq))
                ctx.answered = seq
            elif e in ("match", "match2"):
                ctx.rx(ctx.frame("stackStatusHandler", [ctx.status(MATCH[op])], ctx.answered, callback=True))
            elif e == "nonmatch":
                ctx.rx(ctx.frame("stackStatusHandler", [ctx.status(NONMATCH[op])], ctx.answered, callback=True))
                ctx.rx(ctx.frame("stackStatusHandler", [ctx.status("other")], ctx.answered, callback=True))
            elif e in ("r1", "r2"):
                ctx.rx(ctx.frame("energyScanResultHandler", result_vals[e], ctx.answered, callback=True))
            elif e == "complete":
                ctx.rx(ctx.frame("scanCompleteHandler", [26, ctx.status("ok" if v == "ok" else "fail")], ctx.answered, callback=True))
            elif e == "T":
                if ctx.loop.next_deadline() is None:
                    skip = True
                    if not task.done() and exp_idx == i:
                        # the reference expects a timeout but no timer is armed: only the scan has no operation timeout
                        if op != "scan":
                            viol.append(f"{op}: no timeout is armed while the operation is pending")
                        exp_kind, exp_idx, mand, opt = reference(op, events[:i] + events[i + 1:])
                        if exp_idx is not None and exp_idx >= i:
                            exp_idx += 1
                else:
                    if not task.done():
                        t_resp_at_T = t_resp
                    ctx.loop.fire_timers()
                    ctx.loop.settle()
            elif e == "cancel":
                if not task.done():
                    task.cancel()
                    ctx.loop.settle()
            if task.done() and ended_at is None:
                ended_at = i
                t_end = ctx.loop.time()
            if skip:
                continue
        # verdict
        label = f"{op} v{version} events {[x if v is None else f'{x}:{v}' for x, v in events]}"
        if exp_kind == "pending":
            if task.done():
                viol.append(f"{label}: operation ended ({outcome(task)}) although the reference says it is still waiting")
        else:
            if not task.done():
                viol.append(f"{label}: operation still pending, expected {exp_kind} at event #{exp_idx}")
            else:
                got = outcome(task)
                if got[0] != exp_kind:
                    viol.append(f"{label}: ended with {got}, expected {exp_kind}")
                elif ended_at != exp_idx:
                    viol.append(f"{label}: ended at event #{ended_at}, expected at event #{exp_idx}")
                elif exp_kind == "timeout":
                    want = (t_issue + CMD_TIMEOUT) if t_resp_at_T is None else t_resp_at_T + (UP_TIMEOUT if op == "ensure" else OP_TIMEOUT)
                    if abs(t_end - want) > EPS:
                        viol.append(f"{label}: timed out at {t_end:.3f}s, expected {want:.3f}s")
                elif exp_kind == "ok" and op == "scan":
                    res = [list(map(int, r)) for r in task.result()]
                    m = [result_vals[r] for r in mand]
                    o = [result_vals[r] for r in opt]
                    if res != m and res != m + o:
                        viol.append(f"{label}: scan returned {res}, expected {m} (optionally followed by {o})")
        if not task.done():
            task.cancel()
            ctx.loop.settle()
        # leaks
        leak = leaks(ctx)
        if leak:
            viol.append(f"{label}: after the operation ended {leak}")
        # run it again from the state reached
        if second and not leak:
            task2 = start_op(ctx)
            if getattr(ctx, "skipped_query", False):
                viol.append(f"{label}: the bring-up run again afterwards (NCP restarted, no network) did not ask the NCP for its network state "
                            f"({outcome(task2) if task2.done() else 'pending'})")
                if not task2.done():
                    task2.cancel()
                    ctx.loop.settle()
                return viol, (op, exp_kind, exp_idx)
            seq2, cmd2 = ctx.last_request()
            if op == "scan":
                ctx.rx(ctx.frame(cmd2, [ctx.status("ok")], seq2))
                ctx.answered = seq2
                ctx.rx(ctx.frame("energyScanResultHandler", [14, -42], seq2, callback=True))
                ctx.rx(ctx.frame("scanCompleteHandler", [26, ctx.status("ok")], seq2, callback=True))  # (seq2 is answered by now)
                ok = task2.done() and outcome(task2)[0] == "ok" and [list(map(int, r)) for r in task2.result()] == [[14, -42]]
            else:
                # callbacks carry the sequence number of the last command the NCP answered, not the pending one
                ctx.rx(ctx.frame("stackStatusHandler", [ctx.status(MATCH[op])], ctx.answered, callback=True))
                ctx.rx(ctx.frame(cmd2, [ctx.status("ok")], seq2))
                ok = task2.done() and outcome(task2)[0] == "ok"
            if not ok:
                viol.append(f"{label}: the same operation run again afterwards did not complete normally ({outcome(task2) if task2.done() else 'pending'})")
            if not task2.done():
                task2.cancel()
                ctx.loop.settle()
            leak = leaks(ctx)
            if leak:
                viol.append(f"{label}: after the repeated operation {leak}")
        sig = (op, exp_kind, exp_idx)
    finally:
        ctx.close()
    return viol, sig


def run_two_scans(version, order):
    """Scan A is running (its command already answered); a second scan B is requested while A is in progress.
    `order` is a permutation of {startB, respB, r1, r2, c1, c2}.  Each scan must return exactly the results received
    between the moment its own command went on the wire and the first completion callback after that moment
    (results between that completion and the call's return are optional), and must not end on a completion callback
    that predates its own command."""
    ctx = Ctx(version, "scan")
    t = ctx.t
    viol = []
    label = f"two scans v{version} order {list(order)}"
    try:
        def scan():
            return ctx.loop.create_task(ctx.ezsp.startScan(t.EzspNetworkScanType.ENERGY_SCAN, t.Channels.ALL_CHANNELS, 3))

        A = scan()
        ctx.loop.settle()
        seqA, _ = ctx.last_request()
        ctx.rx(ctx.frame("startScan", [ctx.status("ok")], seqA))
        ctx.answered = seqA
        n_sent = len(ctx.gw.sent)
        B = None
        seqB = None
        issue = {"A": -1, "B": None}
        vals = {"r1": [15, -30], "r2": [16, -31]}
        log = []            # (index, kind, value)
        ended = {}
        for i, e in enumerate(order):
            if e == "startB":
                B = scan()
                ctx.loop.settle()
            elif e == "respB":
                if seqB is None:
                    continue    # B's command is not on the wire yet: nothing to answer
                ctx.rx(ctx.frame("startScan", [ctx.status("ok")], seqB))
                ctx.answered = seqB
                log.append((i, "respB", None))
            elif e in vals:
                ctx.rx(ctx.frame("energyScanResultHandler", vals[e], ctx.answered, callback=True))
                log.append((i, "result", vals[e]))
            else:
                ctx.rx(ctx.frame("scanCompleteHandler", [26, ctx.status("ok")], ctx.answered, callback=True))
                log.append((i, "complete", None))
            if seqB is None and len(ctx.gw.sent) > n_sent:
                seqB, _ = ctx.last_request()
                issue["B"] = i if e == "startB" else i + 0.5   # went out while this event was processed
            for nm, task in (("A", A), ("B", B)):
                if task is not None and task.done() and nm not in ended:
                    ended[nm] = i
        for nm, task in (("A", A), ("B", B)):
            if task is None:
                continue
            i0 = issue[nm]
            resp_i = -1 if nm == "A" else next((i for i, k, _ in log if k == "respB"), None)
            comp_i = None if i0 is None else next((i for i, k, _ in log if k == "complete" and i > i0), None)
            should_end = None if (i0 is None or resp_i is None or comp_i is None) else max(resp_i, comp_i)
            if task.done():
                if task.exception() is not None:
                    viol.append(f"{label}: scan {nm} raised {type(task.exception()).__name__}")
                    continue
                if should_end is None:
                    viol.append(f"{label}: scan {nm} returned although "
                                + ("its command was never sent" if i0 is None else "no completion callback was received after its command went on the wire" if comp_i is None else "its command was never answered"))
                    continue
                res = [list(map(int, r)) for r in task.result()]
                mand = [v for i, k, v in log if k == "result" and i0 < i < comp_i]
                opt = [v for i, k, v in log if k == "result" and comp_i < i <= ended[nm]]
                early = [v for i, k, v in log if k == "result" and i < i0]
                if any(v in res for v in early):
                    viol.append(f"{label}: scan {nm} returned results received before its command was issued: {res}")
                elif res != mand and res != mand + opt:
                    viol.append(f"{label}: scan {nm} returned {res}, expected {mand} (optionally followed by {opt})")
            elif should_end is not None:
                viol.append(f"{label}: scan {nm} still pending although its command was answered and a completion callback followed")
        for task in (A, B):
            if task is not None and not task.done():
                task.cancel()
        ctx.loop.settle()
        leak = leaks(ctx)
        if leak:
            viol.append(f"{label}: after both scans ended {leak}")
    finally:
        ctx.close()
    return viol


def run_isolation(version, op):
    """Two radios in one process: the event that would complete radio A's operation is delivered to radio B only.  A must keep
    waiting (and time out); B must not keep anything.  State shared between EZSP objects (class-level listener tables) shows here."""
    viol = []
    a = Ctx(version, op)
    b = Ctx(version, op, loop=a.loop)
    try:
        task = start_op(a)
        seq, cmd = a.last_request()
        a.rx(a.frame(cmd, [a.status("ok")], seq))
        a.answered = seq
        if op == "scan":
            b.rx(b.frame("energyScanResultHandler", [12, -40], 0x33, callback=True))
            b.rx(b.frame("scanCompleteHandler", [26, b.status("ok")], 0x33, callback=True))
        else:
            b.rx(b.frame("stackStatusHandler", [b.status(MATCH[op])], 0x33, callback=True))
        a.loop.settle()
        label = f"{op} v{version} isolation"
        if task.done():
            viol.append(f"{label}: the operation on one EZSP object ended ({outcome(task)}) on an event that only another EZSP object received")
        else:
            if op == "scan":
                a.rx(a.frame("energyScanResultHandler", [13, -41], seq, callback=True))
                a.rx(a.frame("scanCompleteHandler", [26, a.status("ok")], seq, callback=True))
                if not task.done() or outcome(task) != ("ok",) or [list(map(int, r)) for r in task.result()] != [[13, -41]]:
                    viol.append(f"{label}: the scan did not return exactly its own results after another EZSP object received results: "
                                f"{task.result() if task.done() and not task.cancelled() and task.exception() is None else outcome(task) if task.done() else 'pending'}")
            else:
                a.loop.fire_timers()
                a.loop.settle()
                if not task.done() or outcome(task)[0] != "timeout":
                    viol.append(f"{label}: expected a timeout, got {outcome(task) if task.done() else 'pending'}")
        if not task.done():
            task.cancel()
            a.loop.settle()
        for who, c in (("the operating", a), ("the other", b)):
            lk = leaks(c)
            if lk:
                viol.append(f"{label}: {who} EZSP object: {lk}")
    finally:
        a.close()
    return viol


def run_shared_event(version):
    """Two operations in flight together that wait for the SAME stack status (forming a network while the application brings the
    network up): one matching event, arriving after both commands were accepted, completes both.  And a scan whose result
    callbacks repeat the same reading returns every one of them, in order."""
    viol = []
    a = Ctx(version, "form")
    t = a.t
    try:
        params = gv.one(t.EmberNetworkParameters, "mid")
        t1 = a.loop.create_task(a.ezsp.formNetwork(params))
        a.loop.settle()
        seq, cmd = a.last_request()
        a.rx(a.frame(cmd, [a.status("ok")], seq))
        a.answered = seq
        t2 = a.loop.create_task(a.app._ensure_network_running())
        a.loop.settle()
        seq, cmd = a.last_request()
        a.rx(a.frame("networkState", [t.EmberNetworkStatus.NO_NETWORK], seq))
        a.loop.settle()
        seq, cmd = a.last_request()       # networkInit
        a.rx(a.frame(cmd, [a.status("ok")], seq))
        a.answered = seq
        a.rx(a.frame("stackStatusHandler", [a.status("up")], seq, callback=True))
        a.loop.settle()
        for name, task in (("formNetwork", t1), ("bring-up", t2)):
            if not task.done():
                viol.append(f"shared v{version}: {name} is still waiting although the matching stack status arrived after its command was accepted "
                            f"(another operation was waiting for the same status)")
                task.cancel()
            elif outcome(task) != ("ok",):
                viol.append(f"shared v{version}: {name} ended with {outcome(task)}")
        a.loop.settle()
        lk = leaks(a)
        if lk:
            viol.append(f"shared v{version}: {lk}")
    finally:
        a.close()
    b = Ctx(version, "scan")
    try:
        task = start_op(b)
        seq, cmd = b.last_request()
        b.rx(b.frame(cmd, [b.status("ok")], seq))
        readings = [[12, -40], [12, -40], [13, -41], [12, -40]]
        for r in readings:
            b.rx(b.frame("energyScanResultHandler", r, seq, callback=True))
        b.rx(b.frame("scanCompleteHandler", [26, b.status("ok")], seq, callback=True))
        if not task.done() or outcome(task) != ("ok",):
            viol.append(f"scan v{version} with repeated readings: {outcome(task) if task.done() else 'pending'}")
        else:
            got = [list(map(int, r)) for r in task.result()]
            if got != readings:
                viol.append(f"scan v{version}: result callbacks {readings} were received, the scan returned {got}")
        if not task.done():
            task.cancel()
            b.loop.settle()
    finally:
        b.close()
    return viol


def run_handover(version, pair):
    """Operation A has seen its matching status event BEFORE the response to its own command and keeps waiting for that response;
    meanwhile operation B -- waiting for the same status -- is started (its command queues behind A's).  A's response arrives, A
    ends.  Then B's command is accepted and B's event arrives: B must observe it (whatever A tidied up when it left)."""
    viol = []
    opa, opb = pair
    a = Ctx(version, opa)
    t = a.t
    label = f"handover v{version} {opa} -> {opb}"
    try:
        ta = start_op(a)
        seq_a, cmd_a = a.last_request()
        a.rx(a.frame("stackStatusHandler", [a.status(MATCH[opa])], a.answered, callback=True))
        if ta.done():
            return [f"{label}: the first operation ended ({outcome(ta)}) before its command was answered"]
        n_sent = len(a.gw.sent)
        a.op = opb
        if opb == "ensure":
            tb = a.loop.create_task(a.app._ensure_network_running())
        elif opb == "form":
            tb = a.loop.create_task(a.ezsp.formNetwork(gv.one(t.EmberNetworkParameters, "mid")))
        else:
            tb = a.loop.create_task(a.ezsp.leaveNetwork())
        a.loop.settle()
        a.rx(a.frame(cmd_a, [a.status("ok")], seq_a))
        a.answered = seq_a
        if not ta.done() or outcome(ta) != ("ok",):
            viol.append(f"{label}: the first operation (event before response) ended with {outcome(ta) if ta.done() else 'pending'}")
        # B's command(s) are on their way now
        for _ in range(3):
            if len(a.gw.sent) <= n_sent:
                break
            seq, cmd = a.last_request()
            n_sent = len(a.gw.sent)
            if cmd == "networkState":
                a.rx(a.frame("networkState", [t.EmberNetworkStatus.NO_NETWORK], seq))
            else:
                a.rx(a.frame(cmd, [a.status("ok")], seq))
            a.answered = seq
        a.rx(a.frame("stackStatusHandler", [a.status(MATCH[opb])], a.answered, callback=True))
        if not tb.done():
            viol.append(f"{label}: the second operation is still waiting although its command was accepted and the matching stack status arrived after it")
            tb.cancel()
            a.loop.settle()
        elif outcome(tb) != ("ok",):
            viol.append(f"{label}: the second operation ended with {outcome(tb)}")
        if not ta.done():
            ta.cancel()
            a.loop.settle()
        lk = leaks(a)
        if lk:
            viol.append(f"{label}: {lk}")
    finally:
        a.close()
    return viol


def outcome(task):
    if task.cancelled():
        return ("cancelled",)
    exc = task.exception()
    if exc is None:
        return ("ok",)
    if isinstance(exc, asyncio.TimeoutError):
        return ("timeout",)
    return ("raise", type(exc).__name__)


def leaks(ctx):
    out = []
    cbs = getattr(ctx.ezsp, "_callbacks", None)
    if cbs is not None and hasattr(cbs, "__len__"):
        n = len(cbs)
        if n != ctx.base_callbacks:
            out.append(f"{n} callbacks are registered, {ctx.base_callbacks} before the operation")
    lst = getattr(ctx.ezsp, "_stack_status_listeners", None)
    if lst is not None and hasattr(lst, "items"):
        stale = {str(k): len(v) for k, v in lst.items() if len(v)}
        if stale:
            out.append(f"stack-status listeners remain: {stale}")
    if not out:
        # whatever shape the book-keeping has: a listener waiting for a status is (or holds) a future
        from mc import leaks as lk

        extra = lk.count_futures(ctx.ezsp) - ctx.futures_before
        if extra > 0:
            out.append(f"{extra} future(s) of the finished operation are still referenced from the EZSP object's book-keeping")
    return "; ".join(out)


def job(args):
    version, op, tier = args
    import logging

    logging.disable(logging.CRITICAL)
    viol = []
    sigs = set()
    n = 0
    sample = None
    if op == "two-scans":
        for order in itertools.permutations(["startB", "respB", "r1", "r2", "c1", "c2"]):
            n += 1
            for m in run_two_scans(version, order):
                viol.append((vkey(op, m), m, {"world": "c17", "version": version, "op": op, "events": list(order)}))
            sigs.add((op, order.index("startB"), order.index("c1") < order.index("c2")))
        return version, op, n, sigs, viol, {"version": version, "op": op, "events": ["startB", "r1", "respB", "c1", "r2", "c2"]}
    for events in event_sets(op, tier):
        v, sig = run_sequence(version, op, list(events))
        n += 1
        sigs.add(sig)
        for m in v:
            viol.append((vkey(op, m), m, {"world": "c17", "version": version, "op": op, "events": [list(e) for e in events]}))
        if sample is None and len(events) == 4:
            sample = {"version": version, "op": op, "events": [list(e) for e in events]}
    return version, op, n, sigs, viol, sample


def vkey(op, msg):
    import re

    tail = msg.split("]: ", 1)[-1]
    tail = re.sub(r"\d+(\.\d+)?s?", "#", tail)
    tail = re.sub(r"\{[^}]*\}|\[[^\]]*\]", "", tail)
    tail = re.sub(r"[\[\],:]+", " ", tail)
    return f"C17|{op}|" + re.sub(r"\s+", " ", tail).strip()[:90]


def main(tier: str) -> int:
    rep = report.Report("C17", tier, "model_checking")
    versions = [4, 8, 14] if tier == "quick" else [4, 5, 6, 7, 8, 9, 13, 14]
    jobs = [(v, op, tier) for v in versions for op in ("form", "leave", "ensure", "scan", "two-scans")]
    results = sorted(explore.pool().imap_unordered(job, jobs, chunksize=1), key=lambda r: (r[0], r[1]))
    total = 0
    sigs = set()
    samples = []
    for version, op, n, s, viol, sample in results:
        total += n
        sigs |= s
        if sample:
            samples.append(sample)
        for key, msg, rp in viol:
            rep.add_violation(key, msg, rp)
    n_iso = 0
    for v in versions:
        for op in ("form", "leave", "ensure", "scan"):
            n_iso += 1
            for msg in run_isolation(v, op):
                rep.add_violation(vkey(op, msg), msg, {"world": "c17", "kind": "isolation", "version": v, "op": op})
    for v in versions:
        n_iso += 2
        for msg in run_shared_event(v):
            rep.add_violation(vkey("shared", msg), msg, {"world": "c17", "kind": "shared", "version": v, "op": "form"})
    for v in versions:
        for pair in (("form", "ensure"), ("ensure", "form"), ("form", "form"), ("leave", "leave")):
            n_iso += 1
            for msg in run_handover(v, pair):
                rep.add_violation(vkey("handover", msg), msg, {"world": "c17", "kind": "handover", "version": v, "pair": list(pair), "op": pair[0]})
    total += n_iso
    if total < 5000 or len(sigs) < 30:
        raise explore.InternalError(f"C17 vacuous: sequences={total} signatures={len(sigs)}")
    rep.coverage = {
        "states": total,
        "transitions": total,
        "traces_validated_against_impl": total,
        "evaluations": total,
        "distinct_nontrivial": len(sigs),
        "exhaustive": True,
        "versions": versions,
        "rule": "every order of every subset of the operation's event set (response ok / each refusal, two matching status events, non-matching status events, result callbacks, "
                "completion ok / error, timer expiry, cancellation), each a full execution of the real operation; 'states' counts complete executions (one per sequence); "
                "distinct = distinct (operation, expected outcome, ending event position)",
        "samples": samples[:4],
    }
    rep.assumptions = [
        "command timeout and operation timeout are read from bellows (EZSP_CMD_TIMEOUT, NETWORK_OPS_TIMEOUT): tunables the property names but does not fix",
        "scan results that arrive after the completion callback but before the call returns may or may not be included",
        "leak clause reads EZSP._callbacks and EZSP._stack_status_listeners (the property states it in terms of remaining listeners)",
    ]
    return rep.finish()


def replay(data) -> int:
    if data.get("kind") in ("shared", "handover"):
        v = run_shared_event(data["version"]) if data.get("kind") != "handover" else run_handover(data["version"], tuple(data["pair"]))
        for m in v:
            print("VIOLATION:", m)
        return 1 if v else 0
    if data.get("kind") == "isolation":
        v = run_isolation(data["version"], data["op"])
        for m in v:
            print("VIOLATION:", m)
        return 1 if v else 0
    if data["op"] == "two-scans":
        v = run_two_scans(data["version"], tuple(data["events"]))
        for m in v:
            print("VIOLATION:", m)
        return 1 if v else 0
    events = [tuple(e) for e in data["events"]]
    v, sig = run_sequence(data["version"], data["op"], events)
    print(sig)
    for m in v:
        print("VIOLATION:", m)
    return 1 if v else 0
