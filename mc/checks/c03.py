"""C03 -- ASH frames follow the specified layout bit for bit.

Complete enumeration of frame types x control-field values x codes x payload
lengths/patterns, against the independent codec in mc/env/ref_ash.py; all 256
control bytes for classification; all 1- and 2-bit corruptions of short frames."""
from __future__ import annotations

import itertools

from mc import explore, report
from mc.env import ref_ash
from mc.env.ashworld import FakeTransport, Recorder

RES = bytes(ref_ash.RESERVED)


def patterns(n: int):
    seq = ref_ash.lfsr(n)
    yield "zero", bytes(n)
    yield "ff", b"\xff" * n
    yield "ramp", bytes((i * 7 + 3) & 0xFF for i in range(n))
    yield "reserved", bytes(RES[i % len(RES)] for i in range(n))
    # payload that randomises to reserved bytes only (stuffing on every byte)
    yield "lfsr-compl", bytes(seq[i] ^ RES[i % len(RES)] for i in range(n))


def fresh():
    from bellows.ash import AshProtocol

    rec = Recorder()
    proto = AshProtocol(rec)
    tr = FakeTransport(None)
    proto.connection_made(tr)
    rec.events.clear()
    return proto, tr, rec


def written(proto, tr, frame, **kw) -> bytes:
    n = len(tr.writes)
    proto._write_frame(frame, **kw)
    return b"".join(w for _, w in tr.writes[n:])


def check_body(wire_bytes: bytes, prefix_can: bool) -> str | None:
    body = wire_bytes
    if prefix_can:
        if not body or body[0] != ref_ash.CAN:
            return "missing CANCEL prefix"
        body = body[1:]
    if not body or body[-1] != ref_ash.FLAG:
        return "missing trailing FLAG"
    for b in body[:-1]:
        if b in (ref_ash.FLAG, ref_ash.XON, ref_ash.XOFF, ref_ash.SUB, ref_ash.CAN):
            return f"reserved byte {b:#x} inside stuffed frame"
    return None


def data_case(args):
    """One DATA frame: encoding, wire form, both inverse directions."""
    frm, retx, ack, n, pname, payload = args
    from bellows import ash

    errs = []
    proto, tr, rec = fresh()
    ref = ref_ash.enc_data(frm, retx, ack, payload)
    f = ash.DataFrame(frm_num=frm, re_tx=bool(retx), ack_num=ack, ezsp_frame=payload)
    try:
        got = f.to_bytes()
        if bytes(got) != ref:
            errs.append(f"to_bytes {bytes(got).hex()} != reference {ref.hex()}")
        w = written(proto, tr, f)
        if w != ref_ash.wire(ref):
            errs.append(f"wire {w.hex()} != reference {ref_ash.wire(ref).hex()}")
        m = check_body(w, False)
        if m:
            errs.append(m)
        for src, name in ((ref, "reference"), (bytes(got), "own")):
            p = ash.parse_frame(src)
            if not (type(p) is ash.DataFrame and p.frm_num == frm and int(p.re_tx) == retx and p.ack_num == ack
                    and bytes(p.ezsp_frame) == payload):
                errs.append(f"parse_frame({name} encoding) = {p!r}")
        # unstuffing is the inverse of the reference stuffing
        if bytes(ash.AshProtocol._unstuff_bytes(ref_ash.stuff(ref))) != ref:
            errs.append("_unstuff_bytes(reference stuffing) differs")
    except Exception as e:  # noqa
        errs.append(f"raised {type(e).__name__}: {e}")
    return [(f"C03|DATA|len={n}|{pname}|{e.split(' ')[0]}", f"DATA(frm={frm},reTx={retx},ack={ack},len={n},{pname}): {e}",
             {"kind": "DATA", "frm": frm, "retx": retx, "ack": ack, "payload": payload.hex()}) for e in errs]


def data_cases(tier):
    ctrls = list(itertools.product(range(8), (0, 1), range(8)))
    if tier == "thorough":
        for frm, retx, ack in ctrls:
            for n in range(0, 201):
                for pname, p in patterns(n):
                    yield (frm, retx, ack, n, pname, p)
    else:
        lens = [0, 1, 2, 3, 4, 5, 8, 64, 127, 128, 129, 199, 200]
        for frm, retx, ack in ctrls:
            for n in lens:
                for pname, p in patterns(n):
                    yield (frm, retx, ack, n, pname, p)
        for frm, retx, ack in [(0, 0, 0), (7, 1, 7), (2, 0, 5), (5, 1, 2)]:
            for n in range(0, 201):
                for pname, p in patterns(n):
                    yield (frm, retx, ack, n, pname, p)


def _chunk(args):
    out = []
    for a in args:
        out.extend(data_case(a))
    return len(args), out


def other_frames(rep):
    from bellows import ash
    import bellows.types as t

    n = 0
    def bad(key, msg, replay):
        rep.add_violation(key, msg, {"world": "c03", **replay})

    # ACK / NAK: res x nRdy x ackNum
    for kind, cls, enc in (("ACK", ash.AckFrame, ref_ash.enc_ack), ("NAK", ash.NakFrame, ref_ash.enc_nak)):
        for res, nrdy, ack in itertools.product((0, 1), (0, 1), range(8)):
            n += 1
            ref = enc(ack, nrdy, res)
            proto, tr, rec = fresh()
            try:
                f = cls(res=res, ncp_ready=nrdy, ack_num=ack)
                if bytes(f.to_bytes()) != ref:
                    bad(f"C03|{kind}|to_bytes", f"{kind}(res={res},nRdy={nrdy},ack={ack}).to_bytes()={bytes(f.to_bytes()).hex()} != {ref.hex()}", {"kind": kind, "res": res, "nrdy": nrdy, "ack": ack})
                w = written(proto, tr, f)
                if w != ref_ash.wire(ref) or check_body(w, False):
                    bad(f"C03|{kind}|wire", f"{kind} wire {w.hex()} != {ref_ash.wire(ref).hex()}", {"kind": kind, "res": res, "nrdy": nrdy, "ack": ack})
                if kind == "NAK":
                    w = written(proto, tr, f, prefix=(ash.Reserved.CANCEL,))
                    if w != bytes([ref_ash.CAN]) + ref_ash.wire(ref) or check_body(w, True):
                        bad("C03|NAK|wire-cancel", f"CANCEL-prefixed NAK wire {w.hex()}", {"kind": kind, "res": res, "nrdy": nrdy, "ack": ack})
                for src in (ref, bytes(f.to_bytes())):
                    p = ash.parse_frame(src)
                    if not (type(p) is cls and int(p.res) == res and int(p.ncp_ready) == nrdy and p.ack_num == ack):
                        bad(f"C03|{kind}|parse", f"parse_frame({src.hex()}) = {p!r}", {"kind": kind, "res": res, "nrdy": nrdy, "ack": ack})
            except Exception as e:  # noqa
                bad(f"C03|{kind}|raise", f"{kind}(res={res},nRdy={nrdy},ack={ack}): raised {type(e).__name__}: {e}", {"kind": kind, "res": res, "nrdy": nrdy, "ack": ack})
    # the same sweep on ONE protocol object, ascending and descending, mixed with DATA and RST frames: the bytes written for a
    # frame must not depend on what the object wrote before, and a buffer handed to the transport must not change afterwards
    combos = [(kind, cls, enc, res, nrdy, ack) for kind, cls, enc in (("ACK", ash.AckFrame, ref_ash.enc_ack), ("NAK", ash.NakFrame, ref_ash.enc_nak))
              for res, nrdy, ack in itertools.product((0, 1), (0, 1), range(8))]
    for order in (combos, combos[::-1]):
        proto, tr, rec = fresh()
        for k, (kind, cls, enc, res, nrdy, ack) in enumerate(order):
            n += 1
            try:
                ref = ref_ash.wire(enc(ack, nrdy, res))
                w = written(proto, tr, cls(res=res, ncp_ready=nrdy, ack_num=ack))
                if w != ref:
                    bad(f"C03|{kind}|wire-history", f"{kind}(res={res},nRdy={nrdy},ack={ack}) written as {w.hex()} != {ref.hex()} by an object that wrote other frames before",
                        {"kind": kind, "res": res, "nrdy": nrdy, "ack": ack, "history": True})
                if k % 5 == 0:
                    d = ash.DataFrame(frm_num=k % 8, re_tx=0, ack_num=ack, ezsp_frame=bytes([k, 0x7E, 0x11]))
                    wd = written(proto, tr, d)
                    if wd != ref_ash.wire(ref_ash.enc_data(k % 8, 0, ack, bytes([k, 0x7E, 0x11]))):
                        bad("C03|DATA|wire-history", f"DATA frame written as {wd.hex()} by an object that wrote other frames before", {"kind": "DATA", "history": True})
                mod = tr.modified_after_write()
                if mod:
                    bad("C03|write|buffer-modified-after-write", f"an object handed to transport.write() ({mod[0][0].hex()}) was modified afterwards (now {mod[0][1].hex()}): "
                        "a transport that queues it sends other bytes", {"kind": kind, "history": True})
                    break
            except Exception as e:  # noqa
                bad(f"C03|{kind}|raise", f"history sweep {kind}(res={res},nRdy={nrdy},ack={ack}): raised {type(e).__name__}: {e}", {"kind": kind, "history": True})
    # RST
    n += 1
    proto, tr, rec = fresh()
    try:
        if bytes(ash.RstFrame().to_bytes()) != ref_ash.enc_rst():
            bad("C03|RST|to_bytes", "RST to_bytes differs", {"kind": "RST"})
        n0 = len(tr.writes)
        proto.send_reset()
        w = b"".join(x for _, x in tr.writes[n0:])
        if w != bytes([ref_ash.CAN]) + ref_ash.wire(ref_ash.enc_rst()):
            bad("C03|RST|wire", f"send_reset wrote {w.hex()}", {"kind": "RST"})
        if type(ash.parse_frame(ref_ash.enc_rst())) is not ash.RstFrame:
            bad("C03|RST|parse", "RST not parsed as RstFrame", {"kind": "RST"})
    except Exception as e:  # noqa
        bad("C03|RST|raise", f"RST: raised {type(e).__name__}: {e}", {"kind": "RST"})
    # RSTACK / ERROR x 256 codes
    for kind, cls, enc in (("RSTACK", ash.RStackFrame, ref_ash.enc_rstack), ("ERROR", ash.ErrorFrame, ref_ash.enc_error)):
        for code in range(256):
            n += 1
            ref = enc(code)
            try:
                p = ash.parse_frame(ref)
                if not (type(p) is cls and int(p.version) == 2 and int(p.reset_code) == code):
                    bad(f"C03|{kind}|parse", f"parse_frame({ref.hex()}) = {p!r}", {"kind": kind, "code": code})
                f = cls(version=t.uint8_t(2), reset_code=t.NcpResetCode(code))
                if bytes(f.to_bytes()) != ref:
                    bad(f"C03|{kind}|to_bytes", f"{kind}({code:#x}).to_bytes()={bytes(f.to_bytes()).hex()} != {ref.hex()}", {"kind": kind, "code": code})
                p2 = ash.parse_frame(bytes(f.to_bytes()))
                if p2 != p:
                    bad(f"C03|{kind}|inverse", f"{kind}({code:#x}) does not round-trip", {"kind": kind, "code": code})
            except Exception as e:  # noqa
                bad(f"C03|{kind}|raise", f"{kind}({code:#x}): raised {type(e).__name__}: {e}", {"kind": kind, "code": code})
    return n


def classification(rep):
    from bellows import ash

    names = {"DATA": ash.DataFrame, "ACK": ash.AckFrame, "NAK": ash.NakFrame, "RST": ash.RstFrame,
             "RSTACK": ash.RStackFrame, "ERROR": ash.ErrorFrame}
    n = 0
    for ctrl in range(256):
        kind = ref_ash.classify(ctrl)
        fields = {"DATA": [b"\x01\x02\x03\x04"], "ACK": [b""], "NAK": [b""], "RST": [b""], "RSTACK": [b"\x02\x0b"],
                  "ERROR": [b"\x02\x51"], None: [b"", b"\x02\x0b", b"\x01\x02\x03\x04"]}[kind]
        for field in fields:
            n += 1
            frame = ref_ash.with_crc(bytes([ctrl]) + field)
            try:
                p = ash.parse_frame(frame)
            except Exception:
                p = None
            if kind is None:
                if p is not None:
                    rep.add_violation(f"C03|classify|{ctrl:#04x}", f"control byte {ctrl:#04x} is not a defined frame type but parsed as {p!r}",
                                      {"world": "c03", "kind": "classify", "ctrl": ctrl, "field": field.hex()})
            elif p is None or type(p) is not names[kind]:
                rep.add_violation(f"C03|classify|{ctrl:#04x}", f"control byte {ctrl:#04x} must be {kind}, parsed as {p!r}",
                                  {"world": "c03", "kind": "classify", "ctrl": ctrl, "field": field.hex()})
    return n


def corruptions(rep):
    """All 1- and 2-bit flips of the unstuffed frame: rejected by parse_frame and
    nothing handed up / no ack-state change when fed through data_received."""
    from bellows import ash

    shorts = {
        "DATA": ref_ash.enc_data(0, 0, 0, b"\x00\x00\x00\x02"),
        "DATA7": ref_ash.enc_data(7, 1, 3, b"\x7e\x11\x13"),
        "ACK": ref_ash.enc_ack(1),
        "NAK": ref_ash.enc_nak(6),
        "RST": ref_ash.enc_rst(),
        "RSTACK": ref_ash.enc_rstack(0x0B),
        "ERROR": ref_ash.enc_error(0x51),
    }
    n = 0
    for name, frame in shorts.items():
        nbits = len(frame) * 8
        flips = [(i,) for i in range(nbits)] + list(itertools.combinations(range(nbits), 2))
        for fl in flips:
            n += 1
            b = bytearray(frame)
            for i in fl:
                b[i // 8] ^= 1 << (i % 8)
            b = bytes(b)
            try:
                p = ash.parse_frame(b)
            except Exception:
                p = None
            if p is not None:
                rep.add_violation(f"C03|corrupt|{name}|accepted", f"{name} with bits {fl} flipped ({b.hex()}) parsed as {p!r}",
                                  {"world": "c03", "kind": "corrupt", "frame": frame.hex(), "flips": list(fl)})
                continue
            proto, tr, rec = fresh()
            try:
                proto.data_received(ref_ash.wire(b))
            except Exception as e:  # noqa
                rep.add_violation(f"C03|corrupt|{name}|raise", f"data_received raised {type(e).__name__} on corrupted {name}",
                                  {"world": "c03", "kind": "corrupt", "frame": frame.hex(), "flips": list(fl)})
            if rec.events:
                rep.add_violation(f"C03|corrupt|{name}|delivered", f"corrupted {name} ({b.hex()}) caused upward {rec.events}",
                                  {"world": "c03", "kind": "corrupt", "frame": frame.hex(), "flips": list(fl)})
    return n


def send_path_job(args):
    """The frames the host writes through its REAL paths (not _write_frame called by the harness): send_data -- first transmission,
    the repeat triggered by a NAK, the repeat triggered by the acknowledgement timeout -- the ACK written for an accepted DATA
    frame, the NAK for a rejected one, the reset request.  One protocol object per job, so frame and acknowledgement numbers
    run through all their values; every write is compared byte for byte with the reference encoder."""
    start, payloads = args
    import asyncio

    from bellows.ash import AshProtocol
    from mc.env.ashworld import patch_time
    from mc.vloop import VLoop

    loop = VLoop().enter()
    out = []
    n = 0
    try:
        patch_time(loop)
        rec = Recorder()
        proto = AshProtocol(rec)
        tr = FakeTransport(loop, proto)
        proto.connection_made(tr)
        loop.settle()
        frm = ack = 0

        def wrote(k0):
            return b"".join(w for _, w in tr.writes[k0:])

        def expect(k0, ref, what, payload):
            nonlocal n
            n += 1
            got = wrote(k0)
            if got != ref_ash.wire(ref):
                m = check_body(got, False)
                out.append((f"C03|send-path|{what.split(' ')[0]}", f"{what} (frm={frm}, ack={ack}, payload {len(payload)} bytes {payload[:8].hex()}): wrote {got.hex()}, "
                            f"reference {ref_ash.wire(ref).hex()}" + (f" [{m}]" if m else ""),
                            {"kind": "send-path", "start": start, "payloads": [q.hex() for q in payloads]}))
                return False
            return True

        # bring the two counters to the job's starting point with real traffic
        for k in range(start):
            proto.data_received(ref_ash.wire(ref_ash.enc_data(k % 8, 0, frm, b"\x00\x01\x02\x03")))
            ack = (ack + 1) % 8
        loop.settle()
        for i, payload in enumerate(payloads):
            k0 = len(tr.writes)
            task = loop.create_task(proto.send_data(payload))
            loop.settle()
            ok = expect(k0, ref_ash.enc_data(frm, 0, ack, payload), "first transmission", payload)
            k0 = len(tr.writes)
            proto.data_received(ref_ash.wire(ref_ash.enc_nak(frm)))
            loop.settle()
            ok = expect(k0, ref_ash.enc_data(frm, 1, ack, payload), "repeat after a NAK", payload) and ok
            k0 = len(tr.writes)
            loop.fire_timers()
            loop.settle()
            ok = expect(k0, ref_ash.enc_data(frm, 1, ack, payload), "repeat after the acknowledgement timeout", payload) and ok
            # while the send is suspended the receiver writes frames of its own (a repeated copy of the last accepted DATA frame is
            # acknowledged again, an out-of-sequence frame is refused); the next repeat must still be the DATA frame
            k0 = len(tr.writes)
            proto.data_received(ref_ash.wire(ref_ash.enc_data((ack - 1) % 8, 1, frm, b"\x0a\x0b\x0c\x0d")))
            loop.settle()
            expect(k0, ref_ash.enc_ack(ack), "ACK for a repeated copy of the last accepted DATA frame (send suspended)", payload)
            if i % 2:
                k0 = len(tr.writes)
                proto.data_received(ref_ash.wire(ref_ash.enc_data((ack + 3) % 8, 0, frm, b"\x0e\x0e\x0e\x0e")))
                loop.settle()
                expect(k0, ref_ash.enc_nak(ack), "NAK for an out-of-sequence DATA frame (send suspended)", payload)
            k0 = len(tr.writes)
            loop.fire_timers()
            loop.settle()
            ok = expect(k0, ref_ash.enc_data(frm, 1, ack, payload), "repeat after the receiver wrote a frame of its own", payload) and ok
            proto.data_received(ref_ash.wire(ref_ash.enc_ack((frm + 1) % 8)))
            loop.settle()
            if not task.done() or task.exception() is not None:
                if ok:
                    out.append(("C03|send-path|send-did-not-complete", f"send of payload {payload[:8].hex()} did not complete after its ACK: {task!r}",
                                {"kind": "send-path", "start": start, "payloads": [q.hex() for q in payloads]}))
                break
            frm = (frm + 1) % 8
            # an accepted DATA frame from the peer (every third send: the acknowledgement number moves against the frame number)
            if i % 3 == 0:
                k0 = len(tr.writes)
                proto.data_received(ref_ash.wire(ref_ash.enc_data(ack, 0, frm, payload[:5] + b"\x00\x00\x00")))
                ack = (ack + 1) % 8
                loop.settle()
                expect(k0, ref_ash.enc_ack(ack), "ACK for an accepted DATA frame", payload)
                k0 = len(tr.writes)
                proto.data_received(ref_ash.wire(ref_ash.enc_data((ack + 2) % 8, 0, frm, b"\x09\x09\x09\x09")))
                loop.settle()
                expect(k0, ref_ash.enc_nak(ack), "NAK for an out-of-sequence DATA frame", payload)
        k0 = len(tr.writes)
        proto.send_reset()
        n += 1
        if wrote(k0) != bytes([ref_ash.CAN]) + ref_ash.wire(ref_ash.enc_rst()):
            out.append(("C03|send-path|reset", f"reset request wrote {wrote(k0).hex()}, expected CANCEL + RST", {"kind": "send-path", "start": start, "payloads": []}))
    except Exception as e:  # noqa
        import traceback

        out.append((f"C03|send-path|raise|{type(e).__name__}", f"real send path raised {type(e).__name__}: {e} ({traceback.format_exc()[-300:]})",
                    {"kind": "send-path", "start": start, "payloads": [q.hex() for q in payloads]}))
    finally:
        loop.shutdown()
    return n, out[:4]


def send_path_jobs(tier):
    pl = [p for n in range(0, 201) for _, p in patterns(n)]
    # 7 payloads per job: with a different starting offset per job every payload family meets changing frame / acknowledgement numbers
    jobs = [(j % 8, pl[i:i + 7]) for j, i in enumerate(range(0, len(pl), 7))]
    if tier == "thorough":
        jobs = [((st + k) % 8, ps) for st, ps in jobs for k in range(8)]
    return jobs


def main(tier: str) -> int:
    rep = report.Report("C03", tier, "exploration")
    cases = list(data_cases(tier))
    nd = 0
    chunks = [cases[i:i + 400] for i in range(0, len(cases), 400)]
    if len(chunks) > 4 and explore.nworkers() > 1:
        results = explore.pool().imap_unordered(_chunk, chunks)
    else:
        results = map(_chunk, chunks)
    for cnt, errs in results:
        nd += cnt
        for key, msg, rp in errs:
            rep.add_violation(key, msg, {"world": "c03", **rp})
    ns = 0
    sj = send_path_jobs(tier)
    for cnt, errs in (explore.pool().imap_unordered(send_path_job, sj) if explore.nworkers() > 1 else map(send_path_job, sj)):
        ns += cnt
        for key, msg, rp in errs:
            rep.add_violation(key, msg, {"world": "c03", **rp})
    no = other_frames(rep)
    nc = classification(rep)
    nf = corruptions(rep)
    # the stuffing of every single byte value
    from bellows.ash import AshProtocol
    for v in range(256):
        s = bytes(AshProtocol._stuff_bytes(bytes([v])))
        if s != ref_ash.stuff(bytes([v])):
            rep.add_violation(f"C03|stuff|{v:#04x}", f"_stuff_bytes({v:#04x}) = {s.hex()} != {ref_ash.stuff(bytes([v])).hex()}", {"world": "c03", "kind": "stuff", "value": v})
    distinct = len({(c[0], c[1], c[2]) for c in cases}) + len({(c[3], c[4]) for c in cases})
    rep.coverage = {
        "evaluations": nd + no + nc + nf + 256 + ns,
        "distinct_nontrivial": distinct + no + nf,
        "rule": "DATA: control fields x payload length x 5 payload patterns (thorough: full product 8x2x8x201x5; quick: all 128 control values x 13 boundary lengths + 4 control values x every length 0..200); "
                "ACK/NAK: res x nRdy x ackNum; RST; RSTACK/ERROR x 256 codes; 256 control bytes x plausible data fields; every 1- and 2-bit flip of 7 short frames; "
                "non-trivial = distinct (control value) + distinct (length,pattern) + every non-DATA frame and every corruption",
        "exhaustive": tier == "thorough",
        "send_path_frames": ns,
        "send_path_rule": "frames written by the real send_data (first transmission, repeat after a NAK, repeat after the acknowledgement timeout), by the receiver "
                          "(ACK for an accepted, NAK for an out-of-sequence DATA frame) and by send_reset on a hand-stepped loop, 7 payloads per protocol object "
                          "so that frame and acknowledgement numbers take all values, each write compared byte for byte with the reference encoder",
        "data_frames": nd, "other_frames": no, "classification_cases": nc, "bit_flips": nf,
        "samples": [{"DATA": list(cases[17][:5]), "payload": cases[17][5].hex()}, {"DATA": list(cases[-1][:5]), "payload": cases[-1][5][:16].hex() + "..."}],
    }
    rep.assumptions = ["reference encoder mc/env/ref_ash.py is anchored to UG101 literal vectors (self_test)"]
    return rep.finish()


def replay(data) -> int:
    rep = report.Report("C03", "quick", "exploration")
    if data.get("kind") == "DATA":
        p = bytes.fromhex(data["payload"])
        errs = data_case((data["frm"], data["retx"], data["ack"], len(p), "replay", p))
        for e in errs:
            print(e[1])
        return 1 if errs else 0
    if data.get("kind") == "send-path":
        n, errs = send_path_job((data["start"], [bytes.fromhex(q) for q in data["payloads"]]))
        for e in errs:
            print(e[1])
        return 1 if errs else 0
    other_frames(rep); classification(rep); corruptions(rep)
    for v in rep.violations:
        print(v.key, v.message)
    return 1 if rep.violations else 0
