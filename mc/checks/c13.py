"""C13 -- incoming NCP callbacks are translated faithfully for every protocol version.

Bounded exhaustive input enumeration.  Callback frames are built byte by byte by an encoder
written here (both the pre-v14 and the v14 field orders), pushed through the real
``EZSP.frame_received`` -> real version handler -> real ``ControllerApplication.ezsp_callback_handler``
and the packets / joins / leaves handed to zigpy are compared field by field.
"""
from __future__ import annotations

import itertools
import asyncio
import struct

from mc import explore, report
from mc.env import appenv, ezspenv
from mc.vloop import VLoop

OWN_NWK = 0x4321
ID_INCOMING = 0x45
ID_TCJOIN = 0x24

FIELDS = {
    "sender": [0x1234, 0x0000, 0x0001, 0xFFFD],
    "src_ep": [0x0B, 0, 1, 0xFF],
    "dst_ep": [0x0C, 0, 1, 0xFF],
    "profile": [0x0104, 0x0000, 0xFFFF, 0xC05E],
    "cluster": [0x0006, 0x0000, 0xFFFF, 0x8021],
    "aps_seq": [0x5A, 0, 0xFF],
    "group": [0x0000, 0xABCD, 0xFFFF],
    "options": [0x0140, 0x0000, 0xFFFF],
    "lqi": [0x7B, 0, 0xFF],
    "rssi": [-60, -128, -1, 0, 127],
    "binding": [0xFF, 0],
    "address": [0xFF, 0],
    "paylen": [5, 0, 1, 80, 200],
    "eui64": [bytes(range(1, 9)), b"\xff" * 8],
    "timestamp": [0x11223344, 0, 0xFFFFFFFF],
}
TYPES = [0, 1, 2, 3, 4, 5, 6, 7]
PACKET_TYPES = {0: "unicast", 2: "multicast", 4: "broadcast"}


def payload_bytes(n):
    return bytes((i * 37 + 0x7E) & 0xFF for i in range(n))


def enc_aps(c):
    return struct.pack("<HHBBHHB", c["profile"], c["cluster"], c["src_ep"], c["dst_ep"], c["options"], c["group"], c["aps_seq"])


def enc_incoming(version, mtype, c):
    msg = payload_bytes(c["paylen"])
    if version >= 14:
        body = bytes([mtype]) + enc_aps(c) + struct.pack("<H", c["sender"]) + c["eui64"] + bytes([c["binding"], c["address"], c["lqi"]]) \
            + struct.pack("<b", c["rssi"]) + struct.pack("<I", c["timestamp"]) + bytes([len(msg)]) + msg
    else:
        body = bytes([mtype]) + enc_aps(c) + bytes([c["lqi"]]) + struct.pack("<b", c["rssi"]) + struct.pack("<H", c["sender"]) \
            + bytes([c["binding"], c["address"], len(msg)]) + msg
    return ezspenv.enc_response_hdr(version, c.get("hdr_seq", 0xF3), ID_INCOMING, callback=True) + body


HDR_SEQ = [0xF3]     # sequence byte carried by the trust-centre join frames (changed by the same-object reset scenario)


def enc_join(version, nwk, ieee, status, decision, parent):
    body = struct.pack("<H", nwk) + ieee + bytes([status, decision]) + struct.pack("<H", parent)
    return ezspenv.enc_response_hdr(version, HDR_SEQ[0], ID_TCJOIN, callback=True) + body


class Ctx:
    def __init__(self, version):
        import zigpy.types as zt

        self.zt = zt
        self.version = version
        self.loop = VLoop().enter()
        self.app, self.ezsp, self.gw, self.ncp = appenv.make_app(self.loop, version)
        import bellows.types as t

        self.t = t
        self._wire()

    def reconnect(self, version):
        """The same application object gets a new EZSP connection to an NCP of another protocol version
        (what a reconnect after a firmware change does: ControllerApplication.connect() builds a fresh EZSP)."""
        from mc.env import ezspenv as ee

        self.version = version
        self.ezsp, self.gw, self.ncp = ee.make_stack(self.loop, version)
        self.app._ezsp = self.ezsp
        self._wire()

    def _wire(self):
        t, zt = self.t, self.zt
        self.ncp.handlers["findKeyTableEntry"] = lambda a: [0xFF]
        self.ncp.handlers["setManufacturerCode"] = lambda a: []
        self.ncp.handlers["eraseKeyTableEntry"] = lambda a: [t.EmberStatus.SUCCESS]
        self.app.state.node_info.nwk = zt.NWK(OWN_NWK)
        if not hasattr(self, "packets"):
            self.packets, self.joins, self.leaves = [], [], []
        self.app.packet_received = lambda p: self.packets.append(p)
        self.app.handle_join = lambda nwk, ieee, parent, *a, **k: self.joins.append((int(nwk), bytes(ieee.serialize()), int(parent)))
        self.app.handle_leave = lambda nwk, ieee, *a, **k: self.leaves.append((int(nwk), bytes(ieee.serialize())))
        self.ezsp.add_callback(self.app.ezsp_callback_handler)

    def feed(self, frame, settle=True):
        self.ezsp.frame_received(frame)
        if settle:
            self.loop.settle()

    def close(self):
        self.loop.shutdown()


def check_incoming(ctx, mtype, c):
    zt = ctx.zt
    ctx.packets.clear()
    frame = enc_incoming(ctx.version, mtype, c)
    try:
        ctx.feed(frame)
    except Exception as e:  # noqa
        return f"raised {type(e).__name__}: {e}"
    kind = PACKET_TYPES.get(mtype)
    if kind is None:
        if ctx.packets:
            return f"message type {mtype} produced {len(ctx.packets)} packet(s), expected none"
        return None
    if len(ctx.packets) != 1:
        return f"{kind} message produced {len(ctx.packets)} packets, expected exactly one"
    p = ctx.packets[0]
    exp = {
        "src": (zt.AddrMode.NWK, c["sender"]),
        "src_ep": c["src_ep"], "dst_ep": c["dst_ep"], "profile_id": c["profile"], "cluster_id": c["cluster"],
        "tsn": c["aps_seq"], "lqi": c["lqi"], "rssi": c["rssi"], "data": payload_bytes(c["paylen"]),
    }
    got = {
        "src": (p.src.addr_mode, int(p.src.address)),
        "src_ep": int(p.src_ep), "dst_ep": int(p.dst_ep), "profile_id": int(p.profile_id), "cluster_id": int(p.cluster_id),
        "tsn": int(p.tsn), "lqi": int(p.lqi), "rssi": int(p.rssi), "data": bytes(p.data.serialize()),
    }
    for k in exp:
        if exp[k] != got[k]:
            return f"{kind} packet field {k}: {got[k]!r}, callback carried {exp[k]!r}"
    if kind == "unicast" and (p.dst.addr_mode, int(p.dst.address)) != (zt.AddrMode.NWK, OWN_NWK):
        return f"unicast packet destination {p.dst!r}, expected own address {OWN_NWK:#06x}"
    if kind == "multicast" and (p.dst.addr_mode, int(p.dst.address)) != (zt.AddrMode.Group, c["group"]):
        return f"multicast packet destination {p.dst!r}, expected group {c['group']:#06x}"
    if kind == "broadcast" and p.dst.addr_mode != zt.AddrMode.Broadcast:
        return f"broadcast packet destination {p.dst!r}, expected a broadcast address"
    return None


def expected_join(status, decision, nwk, ieee, parent):
    if status == 2:      # DEVICE_LEFT
        return ("leave", (nwk, ieee))
    if decision == 2:    # DENY_JOIN
        return None
    return ("join", (nwk, ieee, parent))


def check_joins(ctx, frames_specs):
    """Deliver the join frames back to back (one serial read), then let everything settle."""
    ctx.joins.clear()
    ctx.leaves.clear()
    try:
        for spec in frames_specs:
            ctx.feed(enc_join(ctx.version, *spec), settle=False)
        ctx.loop.settle()
        ctx.loop.advance(1.0)
    except (KeyboardInterrupt, SystemExit):
        raise
    except BaseException as e:  # noqa  (a CancelledError escaping from the receive path is a BaseException)
        return f"raised {type(e).__name__}: {e}"
    exp_j, exp_l = [], []
    for nwk, ieee, status, decision, parent in frames_specs:
        e = expected_join(status, decision, nwk, ieee, parent)
        if e and e[0] == "join":
            exp_j.append(e[1])
        elif e:
            exp_l.append(e[1])
    if ctx.joins != exp_j:
        return f"joins reported {ctx.joins}, expected {exp_j}"
    if ctx.leaves != exp_l:
        return f"leaves reported {ctx.leaves}, expected {exp_l}"
    return None


def combos(tier):
    base = {k: v[0] for k, v in FIELDS.items()}
    yield dict(base)
    names = list(FIELDS)
    for n in names:
        for v in FIELDS[n][1:]:
            c = dict(base)
            c[n] = v
            yield c
    if tier == "quick":
        for a, b in itertools.combinations(names, 2):
            for va in FIELDS[a][1:]:
                for vb in FIELDS[b][1:]:
                    c = dict(base)
                    c[a], c[b] = va, vb
                    yield c
    else:
        for a, b, d in itertools.combinations(names, 3):
            for va in FIELDS[a][1:]:
                for vb in FIELDS[b][1:]:
                    for vd in FIELDS[d][1:3]:
                        c = dict(base)
                        c[a], c[b], c[d] = va, vb, vd
                        yield c


def job(args):
    version, tier = args
    import logging

    logging.disable(logging.CRITICAL)
    ctx = Ctx(version)
    viol = []
    n = 0
    packets = 0
    try:
        for c in combos(tier):
            for mtype in TYPES:
                n += 1
                m = check_incoming(ctx, mtype, c)
                if PACKET_TYPES.get(mtype):
                    packets += 1
                if m:
                    import re

                    key = "C13|incoming|" + re.sub(r"0x[0-9a-f]+|-?\d+|b'.*?'|\(.*?\)", "#", m)[:70]
                    viol.append((key, f"v{version} type {mtype}: {m}", {"world": "c13", "kind": "incoming", "version": version, "mtype": mtype,
                                                                         "fields": {k: (v.hex() if isinstance(v, bytes) else v) for k, v in c.items()}}))
        ieees = [bytes([1, 0, 0, 0, 0, 0, 0, 0]), b"\xfe" + b"\xff" * 7, bytes([0x11, 0x22, 0x33, 0x44, 0x55, 0x8C, 0xCF, 0x04]),
                 bytes([0x66, 0x22, 0x33, 0x44, 0x55, 0x44, 0xEF, 0x54])]
        specs = [(nwk, ieee, st, dec, parent) for st in (0, 1, 2, 3, 4, 5, 7, 6) for dec in (0, 1, 2, 3, 4)
                 for nwk in (0x0001, 0xFFFD) for ieee in ieees for parent in (0x0000, 0x1234)]
        for s in specs:
            n += 1
            m = check_joins(ctx, [s])
            if m:
                viol.append((f"C13|join|single|{m.split(' reported')[0]}", f"v{version} join {s}: {m}",
                             {"world": "c13", "kind": "join", "version": version, "specs": [[s[0], s[1].hex(), s[2], s[3], s[4]]]}))
        # two joins in one serial read (covers background work started by the first one)
        allowed = [s for s in specs if s[2] in (0, 1) and s[3] in (0, 2) and s[0] == 1 and s[4] == 0x1234]
        for a, b in itertools.product(allowed, repeat=2):
            b = (0x0002,) + b[1:]
            n += 1
            m = check_joins(ctx, [a, b])
            if m:
                viol.append((f"C13|join|burst|{m.split(' reported')[0]}", f"v{version} joins {a} + {b} in one read: {m}",
                             {"world": "c13", "kind": "join", "version": version, "specs": [[x[0], x[1].hex(), x[2], x[3], x[4]] for x in (a, b)]}))
    finally:
        ctx.close()
    return version, n, packets, viol


def reconnect_job(seq):
    """One application object, reconnected to NCPs of the listed versions in turn."""
    import logging

    logging.disable(logging.CRITICAL)
    viol = []
    n = 0
    ctx = Ctx(seq[0])
    base = {k: v[0] for k, v in FIELDS.items()}
    try:
        for k, v in enumerate(seq):
            if k:
                ctx.reconnect(v)
            for mtype in TYPES:
                for field in ("lqi", "rssi", "sender", "paylen"):
                    for val in FIELDS[field][:3]:
                        c = dict(base)
                        c[field] = val
                        n += 1
                        m = check_incoming(ctx, mtype, c)
                        if m:
                            import re

                            key = "C13|reconnect|" + re.sub(r"0x[0-9a-f]+|-?\d+|b'.*?'|\(.*?\)", "#", m)[:60]
                            viol.append((key, f"application reconnected {list(seq[:k + 1])}, now v{v}, type {mtype}: {m}",
                                         {"world": "c13", "kind": "reconnect", "versions": list(seq[:k + 1]), "mtype": mtype,
                                          "fields": {kk: (vv.hex() if isinstance(vv, bytes) else vv) for kk, vv in c.items()}}))
            m = check_joins(ctx, [(0x0001, bytes([1, 0, 0, 0, 0, 0, 0, 0]), 1, 0, 0x1234)])
            n += 1
            if m:
                viol.append(("C13|reconnect|join", f"application reconnected {list(seq[:k + 1])}: {m}", {"world": "c13", "kind": "reconnect", "versions": list(seq[:k + 1])}))
    finally:
        ctx.close()
    return n, viol


def same_object_reset_job(version):
    """A command times out (its entry stays behind in the old protocol handler), the NCP is reset and the version re-negotiated
    on the SAME EZSP object (ControllerApplication._reset), then callbacks arrive that carry the timed-out command's sequence
    byte: pending-command state of the old session must not swallow them."""
    import logging

    logging.disable(logging.CRITICAL)
    viol = []
    n = 0
    ctx = Ctx(version)
    try:
        sw = getattr(ctx.ezsp, "_switch_protocol_version", None)
        if sw is None:
            return 0, []
        ctx.ncp.handlers["getNodeId"] = lambda a: None          # never answered
        task = ctx.loop.create_task(ctx.ezsp.getNodeId())
        ctx.loop.run_until_idle(horizon=ctx.loop.time() + 120.0)
        if not task.done() or task.cancelled() or not isinstance(task.exception(), asyncio.TimeoutError):
            return 0, [("C13|same-object-reset|setup", f"v{version}: an unanswered command did not time out", {"world": "c13", "kind": "same-object-reset", "version": version})]
        stale_seq = ctx.gw.sent[-1][1][0]
        sw(4)
        sw(version)
        ctx.ncp.framing = version
        base = {k: v[0] for k, v in FIELDS.items()}
        base["hdr_seq"] = stale_seq
        for mtype in TYPES:
            n += 1
            m = check_incoming(ctx, mtype, dict(base))
            if m:
                viol.append(("C13|same-object-reset|incoming", f"v{version}, after a timed-out command and a reset + re-negotiation on the same EZSP object, "
                             f"callback carrying the old command's sequence byte, type {mtype}: {m}", {"world": "c13", "kind": "same-object-reset", "version": version}))
                break
        HDR_SEQ[0] = stale_seq
        try:
            m = check_joins(ctx, [(0x0001, bytes([1, 0, 0, 0, 0, 0, 0, 0]), 1, 0, 0x1234)])
        finally:
            HDR_SEQ[0] = 0xF3
        n += 1
        if m:
            viol.append(("C13|same-object-reset|join", f"v{version}, after a timed-out command and a reset + re-negotiation on the same EZSP object: {m}",
                         {"world": "c13", "kind": "same-object-reset", "version": version}))
    finally:
        ctx.close()
    return n, viol


JOIN_FATES = ["pending", "finished", "first-command-unanswered", "second-command-unanswered", "first-command-refused", "disconnect-reconnect"]
OVERRIDE_IEEES = [bytes([0x11, 0x22, 0x33, 0x44, 0x55, 0x8C, 0xCF, 0x04]), bytes([0x66, 0x22, 0x33, 0x44, 0x55, 0x44, 0xEF, 0x54])]


def join_history_job(version):
    """Trust-centre joins of devices whose IEEE prefix starts the temporary manufacturer-code override, with every fate of that
    background work in between: still pending, finished, its first or second command unanswered (command time-out), its first
    command refused, the application disconnected and connected again.  Every join must still be reported exactly once."""
    import logging

    logging.disable(logging.CRITICAL)
    viol = []
    n = 0
    seqs = [(f,) for f in JOIN_FATES] + list(itertools.product(JOIN_FATES, repeat=2))
    for fates in seqs:
        ctx = Ctx(version)
        hist = []
        try:
            nwk = 0x0010
            for k, fate in enumerate(fates + ("end",)):
                calls = {"n": 0}

                def mfg(a, fate=fate, calls=calls):
                    calls["n"] += 1
                    if fate == "first-command-unanswered" and calls["n"] == 1:
                        return None
                    if fate == "second-command-unanswered" and calls["n"] == 2:
                        return None
                    if fate == "first-command-refused" and calls["n"] == 1:
                        return ("__raw__", 0x58, b"\x36")
                    return []

                ctx.ncp.handlers["setManufacturerCode"] = mfg
                specs = [(nwk, OVERRIDE_IEEES[k % 2], 1, 0, 0x1234)]
                if fate == "end":
                    specs.append((nwk + 1, bytes([1, 0, 0, 0, 0, 0, 0, 0]), 0, 0, 0x0000))
                nwk += 2
                n += 1
                m = check_joins(ctx, specs)
                hist.append(fate)
                if m:
                    viol.append((f"C13|join-history|{m.split(' reported')[0][:40]}", f"v{version}, joins with manufacturer-code override, earlier override: {hist[:-1]}: {m}",
                                 {"world": "c13", "kind": "join-history", "version": version}))
                    break
                if fate in ("finished", "second-command-unanswered"):
                    ctx.loop.advance(200.0)
                elif fate in ("first-command-unanswered", "first-command-refused"):
                    ctx.loop.advance(15.0)
                elif fate == "disconnect-reconnect":
                    t = ctx.loop.create_task(ctx.app.disconnect())
                    ctx.loop.settle()
                    if not t.done() or t.exception() is not None:
                        raise explore.InternalError(f"C13 harness: disconnect() did not complete: {t!r}")
                    ctx.reconnect(version)
        finally:
            ctx.close()
    return n, viol


def during_settings_read_job(version):
    """Incoming unicasts while another coroutine is reading the network settings back (``load_network_info`` -- what zigpy's
    periodic backup runs on a live network): the read is suspended on each of its EZSP commands in turn, a unicast callback is
    delivered at every such point, and every packet handed to zigpy must carry the coordinator's own address as destination and
    the callback's fields."""
    import logging

    logging.disable(logging.CRITICAL)
    from mc.checks import c14

    viol = []
    n = 0
    ctx = c14.Ctx(version, True)
    try:
        zt = __import__("zigpy.types", fromlist=["x"])
        c = {k: v[0] for k, v in c14.DIMS.items()}
        ni, no = c14.make_info(ctx, c)
        for coro in (ctx.app.write_network_info(network_info=ni, node_info=no), ctx.app.load_network_info(load_devices=True)):
            r = ctx.run(coro)
            if r[0] != "ok":
                raise explore.InternalError(f"C13 harness: settings round trip on the simulated NCP ended with {r}")
        own = int(ctx.app.state.node_info.nwk)
        packets = []
        ctx.app.packet_received = packets.append
        ctx.ezsp.add_callback(ctx.app.ezsp_callback_handler)
        held = []
        ctx.ncp.submit = held.append
        task = ctx.loop.create_task(ctx.app.load_network_info(load_devices=True))
        ctx.loop.settle()
        base = {k: v[0] for k, v in FIELDS.items()}
        steps = 0
        delivered_seq = (ctx.ncp.last_seq - 1) & 0xFF     # callbacks carry the sequence number of the last response the host has been given
        while not task.done() and steps < 600:
            steps += 1
            fields = dict(base, hdr_seq=delivered_seq, sender=0x2000 + steps)
            n += 1
            before = len(packets)
            try:
                ctx.ezsp.frame_received(enc_incoming(version, 0, fields))
                ctx.loop.settle()
            except BaseException as e:  # noqa
                viol.append(("C13|during-read|raised", f"v{version}: a unicast callback delivered while the settings read is suspended (step {steps}) raised {type(e).__name__}: {e}",
                             {"world": "c13", "kind": "during-read", "version": version}))
                break
            if len(packets) != before + 1:
                viol.append(("C13|during-read|count", f"v{version}: a unicast callback delivered while the settings read is suspended on its command #{steps} produced "
                             f"{len(packets) - before} packets", {"world": "c13", "kind": "during-read", "version": version}))
                break
            p = packets[-1]
            if (p.dst.addr_mode, int(p.dst.address)) != (zt.AddrMode.NWK, own) or int(p.src.address) != fields["sender"]:
                viol.append(("C13|during-read|destination", f"v{version}: unicast delivered while the settings read is suspended on its command #{steps}: packet destination "
                             f"{p.dst!r} (source {p.src!r}), expected the coordinator's own address {own:#06x}", {"world": "c13", "kind": "during-read", "version": version}))
                break
            if not held:
                ctx.loop.advance(0.5)
                if not held and not task.done():
                    break
                continue
            fr = held.pop(0)
            delivered_seq = fr[0]
            ctx.ezsp.frame_received(fr)
            ctx.loop.settle()
        if not task.done():
            task.cancel()
            ctx.loop.settle()
            if not viol:
                viol.append(("C13|during-read|hang", f"v{version}: the settings read did not finish while unicasts were being delivered ({steps} steps)",
                             {"world": "c13", "kind": "during-read", "version": version}))
    finally:
        ctx.close()
    return n, viol


RECONNECT_SEQS = [(13, 14, 13), (14, 13), (4, 14, 8), (8, 9), (14, 14, 4), (12, 14)]


def main(tier: str) -> int:
    rep = report.Report("C13", tier, "exploration")
    rec = explore.pool().map(reconnect_job, RECONNECT_SEQS + ([(a, b) for a in range(4, 15) for b in range(4, 15) if a != b] if tier != "quick" else []))
    rec += explore.pool().map(same_object_reset_job, list(ezspenv.VERSIONS))
    rec += explore.pool().map(join_history_job, list(ezspenv.VERSIONS))
    rec += explore.pool().map(during_settings_read_job, list(ezspenv.VERSIONS))
    results = sorted(explore.pool().imap_unordered(job, [(v, tier) for v in ezspenv.VERSIONS], chunksize=1), key=lambda r: r[0])
    total = packets = 0
    for n, viol in rec:
        total += n
        for key, msg, rp in viol:
            rep.add_violation(key, msg, rp)
    for version, n, p, viol in results:
        total += n
        packets += p
        for key, msg, rp in viol:
            rep.add_violation(key, msg, rp)
    if total < 20000 or packets < 5000:
        raise explore.InternalError(f"C13 vacuous: {total} frames, {packets} packet-producing")
    rep.coverage = {
        "evaluations": total,
        "distinct_nontrivial": packets,
        "versions": ezspenv.VERSIONS,
        "exhaustive": True,
        "rule": "versions 4..14 x message type 0..7 x field boundary sets (base, one-at-a-time, all pairs; thorough: triples) for 15 fields incl. signed RSSI extremes and payload "
                "lengths 0..200; trust-centre join: 8 status values x 5 decisions x 2 addresses x 4 EUI64s (incl. manufacturer-override prefixes) x 2 parents, singly and as pairs "
                "delivered in one read; the same application object reconnected to NCPs of other versions (6 sequences quick, all ordered pairs thorough); non-trivial = frames that must produce a packet",
        "samples": [{"version": 14, "mtype": 2, "fields": {k: (v.hex() if isinstance(v, bytes) else v) for k, v in {k: v[0] for k, v in FIELDS.items()}.items()}},
                    {"join": [1, "0100000000000000", 1, 0, 0x1234]}],
    }
    rep.assumptions = [
        "callback frames are encoded by struct.pack in this file (pre-v14 and v14 layouts typed from UG100 / the EmberZNet 8 API reference), not by bellows types",
        "for broadcasts any broadcast destination address is accepted",
        "ControllerApplication constructed with zigpy.util.Requests back-filled; packet_received / handle_join / handle_leave replaced by recorders on the instance",
    ]
    return rep.finish()


def replay(data) -> int:
    if data["kind"] == "same-object-reset":
        n, viol = same_object_reset_job(data["version"])
        for v in viol:
            print("VIOLATION:", v[1])
        return 1 if viol else 0
    if data["kind"] == "during-read":
        n, viol = during_settings_read_job(data["version"])
        for v in viol:
            print("VIOLATION:", v[1])
        return 1 if viol else 0
    if data["kind"] == "join-history":
        n, viol = join_history_job(data["version"])
        for v in viol:
            print("VIOLATION:", v[1])
        return 1 if viol else 0
    ctx = Ctx(data.get("version", 8))
    if data["kind"] == "reconnect":
        ctx.close()
        n, viol = reconnect_job(tuple(data["versions"]))
        for v in viol:
            print("VIOLATION:", v[1])
        return 1 if viol else 0
    if data["kind"] == "incoming":
        c = {k: (bytes.fromhex(v) if isinstance(v, str) else v) for k, v in data["fields"].items()}
        m = check_incoming(ctx, data["mtype"], c)
        print(ctx.packets)
    else:
        m = check_joins(ctx, [(s[0], bytes.fromhex(s[1]), s[2], s[3], s[4]) for s in data["specs"]])
        print(ctx.joins, ctx.leaves)
    print("VIOLATION:" if m else "ok", m)
    ctx.close()
    return 1 if m else 0
