"""C01 -- the ASH link delivers payloads exactly once, in order, over a faulty serial line.

Deviation-bounded stateless search (DB-DFS): the real ``bellows.ash.AshProtocol`` (host) is joined to
an independently written reference ASH endpoint (NCP, transmit window 1..3) by two FIFO lines.  Default
behaviour: every frame delivered intact, in order, payloads submitted when the link is idle (or in
bursts, per configuration).  A deviation is: drop / detectable corruption / duplication of the frame at
the head of either line, delivering the other direction first, firing the host's timers or the NCP's
retransmission timer while frames are still in flight (stall), submitting a payload early, cancelling
the caller of a host send.  All executions with <= k deviations are run to completion and judged.

Self-check: the same explorer and oracle are first run with a second reference endpoint in place of
bellows; a violation there is an internal error (the environment is wrong), never a VIOLATION.
"""
from __future__ import annotations

import asyncio

from mc import explore, report
from mc.env import ref_ash
from mc.env.ashworld import FakeTransport, Recorder, patch_time
from mc.env.ref_endpoint import RefEndpoint
from mc.vloop import VLoop


def hp(i):
    if i % 4 == 3:   # a long payload (data field beyond 128 bytes: the far half of the randomisation sequence); wrap runs only
        return bytes([0x80 + i, i]) + bytes((k * 7 + i) & 0xFF for k in range(178))
    return bytes([0x80 + i, i, 0x7E, 0x11, 0x7D])


def npay(j):
    if j % 4 == 3:
        return bytes([0x40 + j, j]) + bytes((k * 11 + j) & 0xFF for k in range(198))
    return bytes([0x40 + j, j, 0x13, 0x1A, 0x18])


def corrupt(wire: bytes) -> bytes:
    """Detectable corruption: one bit flipped in the unstuffed frame, re-stuffed (CRC no longer matches)."""
    body = wire[:-1]
    pre = b""
    while body[:1] == bytes([ref_ash.CAN]):
        pre += body[:1]
        body = body[1:]
    try:
        raw = bytearray(ref_ash.unstuff(body))
    except ref_ash.BadEscape:
        # the sender stuffed the frame wrongly (a defect the checks report elsewhere): damage a raw byte instead
        b = bytearray(body)
        b[len(b) // 2] ^= 0x04
        return pre + bytes(b) + bytes([ref_ash.FLAG])
    raw[min(1, len(raw) - 1)] ^= 0x04
    return pre + ref_ash.stuff(bytes(raw)) + bytes([ref_ash.FLAG])


class BellowsHost:
    def __init__(self):
        import bellows.ash as ash

        self.loop = VLoop().enter()
        patch_time(self.loop)
        self.rec = Recorder()
        self.proto = ash.AshProtocol(self.rec)
        self.tr = FakeTransport(self.loop, self.proto)
        self.out = []
        self.tr.on_write = lambda d: self.out.append(bytes(d))
        self.proto.connection_made(self.tr)
        self.tasks = {}
        self.outcomes = {}

    def submit(self, i):
        async def run():
            try:
                await self.proto.send_data(hp(i))
            except asyncio.CancelledError:
                self.outcomes[i] = "cancelled"
                raise
            except BaseException as e:  # noqa
                self.outcomes[i] = "raised:" + type(e).__name__
            else:
                self.outcomes[i] = "ok"

        self.tasks[i] = self.loop.create_task(run())
        self.loop.settle()

    def rx(self, data):
        self.loop.call_soon(self.proto.data_received, data)
        self.loop.settle()

    def timer_armed(self):
        return self.loop.next_deadline() is not None

    def on_timeout(self):
        self.loop.fire_timers()
        self.loop.settle()

    def cancel(self, i):
        self.tasks[i].cancel()
        self.loop.settle()

    def ups(self):
        return [e[1] for e in self.rec.events if e[0] == "up"]

    def unresolved(self):
        return [i for i, t in self.tasks.items() if not t.done()]

    def failed(self):
        return any(e[0] == "reset" for e in self.rec.events)

    def state(self):
        return None

    def close(self):
        self.loop.shutdown()


class RefHost:
    """A second reference endpoint in the host role (self-validation of the environment)."""

    def __init__(self):
        self.ep = RefEndpoint(window=1, name="host", nak_bad=True)
        self.out = self.ep.out
        self.outcomes = {}
        self.submitted = []

    def submit(self, i):
        self.submitted.append(i)
        self.ep.submit(hp(i))

    def rx(self, data):
        self.ep.feed(data)
        self._sync()

    def _sync(self):
        for i in self.submitted:
            if hp(i) in self.ep.completed:
                self.outcomes[i] = "ok"
            elif self.ep.failed:
                self.outcomes.setdefault(i, "raised:failed")

    def timer_armed(self):
        return self.ep.timer_armed()

    def on_timeout(self):
        self.ep.on_timeout()
        self._sync()

    def cancel(self, i):
        pass

    def ups(self):
        return list(self.ep.up)

    def unresolved(self):
        return [i for i in self.submitted if i not in self.outcomes]

    def failed(self):
        return self.ep.failed

    def close(self):
        pass


class World:
    def __init__(self, params):
        self.p = params
        self.host = BellowsHost() if params.get("host", "bellows") == "bellows" else RefHost()
        self.ncp = RefEndpoint(window=params["window"], nak_bad=params.get("nak_bad", True))
        self.h2n: list[bytes] = []
        self.n2h: list[bytes] = []
        self.n_host = params["n_host"]
        self.n_ncp = params["n_ncp"]
        self.next_h = 0
        self.next_n = 0
        self.cancelled = set()
        self.viol = []
        self.ended = False
        self.steps = 0
        self.faults = 0
        self.stats = {"drops": 0, "corrupt": 0, "dups": 0, "stalls": 0, "cancels": 0}
        self.seen_host_ok = set()
        self.seen_ncp_done = 0
        self.outage = {"h2n": 0, "n2h": 0}
        self.outage_left = params.get("outages", 1)
        self.late_dup_left = 1
        self.can_cancel = params.get("host", "bellows") == "bellows" and params.get("cancel", True)
        for _ in range(params.get("host_burst", 0)):
            self._submit_host()
        for _ in range(params.get("ncp_burst", 0)):
            self._submit_ncp()
        self._collect()
        self._check()

    # -- plumbing -----------------------------------------------------------------------------
    def _collect(self):
        if self.host.out:
            self.h2n.extend(self.host.out)
            del self.host.out[:]
        if self.ncp.out:
            self.n2h.extend(self.ncp.out)
            del self.ncp.out[:]

    def _submit_host(self):
        self.host.submit(self.next_h)
        self.next_h += 1

    def _submit_ncp(self):
        self.ncp.submit(npay(self.next_n))
        self.next_n += 1

    def host_idle(self):
        return not self.host.unresolved()

    # -- explorer interface ---------------------------------------------------------------------
    def enabled(self):
        if self.ended:
            return []
        out = []
        h, n = bool(self.h2n), bool(self.n2h)
        # default
        if h and self.outage["h2n"] > 0:
            out.append((("dlv", "h2n", "outage-drop"), 0))
        elif n and self.outage["n2h"] > 0:
            out.append((("dlv", "n2h", "outage-drop"), 0))
        elif h:
            out.append((("dlv", "h2n", "ok"), 0))
        elif n:
            out.append((("dlv", "n2h", "ok"), 0))
        elif self.next_h < self.n_host and self.host_idle() and not self.host.failed():
            out.append((("submit", "host"), 0))
        elif self.next_n < self.n_ncp and not self.ncp.busy() and not self.ncp.failed:
            out.append((("submit", "ncp"), 0))
        elif self.host.unresolved() and self.host.timer_armed():
            out.append((("T", "host"), 0))
        elif self.ncp.timer_armed():
            out.append((("T", "ncp"), 0))
        else:
            out.append((("end",), 0))
        if self.steps > 400:
            return out
        first = out[0][0]
        for line, present in (("h2n", h), ("n2h", n)):
            if not present:
                continue
            if ("dlv", line, "ok") != first:
                out.append((("dlv", line, "ok"), 1))
            if self.outage[line] > 0:
                continue
            for f in ("drop", "corrupt", "dup"):
                out.append((("dlv", line, f), 1))
            if self.p.get("late_dup") and self.late_dup_left > 0:
                # the duplicate copy is delayed: it arrives after the frames that are in flight behind it right now
                out.append((("dlv", line, "dup-late"), 1))
            if self.outage_left > 0:
                out.append((("dlv", line, "outage4"), 1))   # this frame and the next three in this direction are lost
        if self.host.unresolved() and self.host.timer_armed() and first != ("T", "host"):
            out.append((("T", "host"), 1))
        if self.ncp.timer_armed() and first != ("T", "ncp"):
            out.append((("T", "ncp"), 1))
        if self.next_h < self.n_host and first != ("submit", "host") and not self.host.failed():
            out.append((("submit", "host"), 1))
        if self.next_n < self.n_ncp and first != ("submit", "ncp") and not self.ncp.failed:
            out.append((("submit", "ncp"), 1))
        if self.can_cancel:
            for i in self.host.unresolved():
                out.append((("cancel", i), 1))
        return out

    def apply(self, i):
        label = self.enabled()[i][0]
        self.steps += 1
        self.viol = []
        k = label[0]
        if k == "end":
            self.ended = True
            self._final()
            return
        if k == "dlv":
            line = self.h2n if label[1] == "h2n" else self.n2h
            fault = label[2]
            frame = line[0]
            if fault != "dup":
                line.pop(0)
            if fault == "dup-late":
                self.late_dup_left -= 1
                self.stats["dups"] += 1
                self._late_copy = (label[1], frame)
            if fault == "outage4":
                self.outage[label[1]] = 3
                self.outage_left -= 1
                self.stats["drops"] += 4
            elif fault == "outage-drop":
                self.outage[label[1]] -= 1
            elif fault == "drop":
                self.stats["drops"] += 1
            else:
                if fault == "corrupt":
                    frame = corrupt(frame)
                    self.stats["corrupt"] += 1
                elif fault == "dup":
                    self.stats["dups"] += 1
                if label[1] == "h2n":
                    self.ncp.feed(frame)
                else:
                    self.host.rx(frame)
        elif k == "T":
            if self.h2n or self.n2h:
                self.stats["stalls"] += 1
            (self.host if label[1] == "host" else self.ncp).on_timeout()
        elif k == "submit":
            if label[1] == "host":
                self._submit_host()
            else:
                self._submit_ncp()
        elif k == "cancel":
            self.cancelled.add(label[1])
            self.stats["cancels"] += 1
            self.host.cancel(label[1])
        self._collect()
        if getattr(self, "_late_copy", None):
            ln, fr = self._late_copy
            self._late_copy = None
            (self.h2n if ln == "h2n" else self.n2h).append(fr)   # behind everything, including the reaction to the first copy
        self._check()

    # -- oracle ---------------------------------------------------------------------------------------
    @staticmethod
    def _subseq(received, submitted, what):
        """received must be an in-order, duplicate-free subsequence of submitted."""
        pos = -1
        for p in received:
            if p not in submitted:
                return f"{what}: payload {p.hex()} was handed up but never submitted by the peer"
            j = submitted.index(p)
            if j <= pos:
                return f"{what}: payload #{j} handed up {'twice' if j == pos else 'after payload #' + str(pos)} (received order {[submitted.index(x) for x in received]})"
            pos = j
        return None

    def _check(self):
        host_sub = [hp(i) for i in range(self.next_h)]
        ncp_sub = [npay(j) for j in range(self.next_n)]
        m = self._subseq(self.host.ups(), ncp_sub, "host upper layer")
        if m:
            self.viol.append(m)
        m = self._subseq(self.ncp.up, host_sub, "NCP upper layer")
        if m:
            self.viol.append(m)
        for i, res in list(self.host.outcomes.items()):
            if i in self.seen_host_ok:
                continue
            self.seen_host_ok.add(i)
            cnt = self.ncp.up.count(hp(i))
            if res == "ok" and cnt != 1:
                self.viol.append(f"host send #{i} completed successfully but its payload was handed up {cnt} times at the peer")
            elif res.startswith("raised") and cnt > 1:
                self.viol.append(f"host send #{i} reported failure but its payload was handed up {cnt} times at the peer")
        done = self.ncp.completed
        for p in done[self.seen_ncp_done:]:
            cnt = self.host.ups().count(p)
            if cnt != 1:
                self.viol.append(f"NCP send of payload {p.hex()} was acknowledged by the host but handed up {cnt} times at the host")
        self.seen_ncp_done = len(done)

    def _final(self):
        for i in self.host.unresolved():
            self.viol.append(f"host send #{i} never resolved")
        faults = sum(self.stats.values())
        if faults == 0:
            for i in range(self.next_h):
                if self.host.outcomes.get(i) != "ok":
                    self.viol.append(f"fault-free run: host send #{i} ended with {self.host.outcomes.get(i)}")
            if len(self.ncp.completed) != self.next_n or len(self.host.ups()) != self.next_n:
                self.viol.append(f"fault-free run: NCP payloads completed {len(self.ncp.completed)}/{self.next_n}, handed up at the host {len(self.host.ups())}")
        elif faults <= 3 and not self.cancelled and self.stats["drops"] < 4:
            # fewer faults than the retry budget: every payload must still get through
            for i in range(self.next_h):
                if self.host.outcomes.get(i) != "ok":
                    self.viol.append(f"{faults} line fault(s), below the retry budget, but host send #{i} ended with {self.host.outcomes.get(i)}")
            if not self.ncp.failed and len(self.ncp.completed) != self.next_n:
                self.viol.append(f"{faults} line fault(s): NCP payloads acknowledged {len(self.ncp.completed)}/{self.next_n}")
        if self.cancelled:
            for i in range(self.next_h):
                if i in self.cancelled:
                    continue
                if self.host.outcomes.get(i) is None:
                    self.viol.append(f"after cancelling send(s) {sorted(self.cancelled)} host send #{i} never resolved")
                elif faults <= 3 and self.host.outcomes.get(i) != "ok":
                    self.viol.append(f"after cancelling another send and {faults} line fault(s), below the retry budget, host send #{i} ended with {self.host.outcomes.get(i)}")

    def done(self):
        return self.ended

    def finish(self):
        return []

    def signature(self):
        return (tuple(sorted(self.host.outcomes.items())), len(self.ncp.completed), tuple(sorted(self.stats.items())), len(self.host.ups()), len(self.ncp.up))

    def close(self):
        self.host.close()


class DfsWorld:
    def __init__(self, params):
        self.w = World(params)
        self.all = list(self.w.viol)

    def done(self):
        return self.w.done()

    def enabled(self):
        return self.w.enabled()

    def apply(self, i):
        self.w.apply(i)
        self.all += self.w.viol

    def finish(self):
        return self.all

    def signature(self):
        return self.w.signature()

    def close(self):
        self.w.close()


def build(params):
    return DfsWorld(params)


def vkey(msg):
    import re

    m = re.sub(r"#\d+|\b\d+\b", "#", msg)
    m = re.sub(r"\[[^\]]*\]|\b[0-9a-f]{8,}\b", "", m)
    return "C01|" + re.sub(r"\s+", " ", m).strip()[:100]


def param_list(tier, host="bellows"):
    out = []
    if tier == "quick":
        for w in (1, 3):
            out.append({"window": w, "n_host": 3, "n_ncp": 3, "host": host})
            out.append({"window": w, "n_host": 3, "n_ncp": 3, "host_burst": 3, "ncp_burst": 3, "host": host})
        out.append({"window": 2, "n_host": 2, "n_ncp": 2, "host_burst": 2, "ncp_burst": 2, "host": host, "nak_bad": False})
        out.append({"window": 1, "n_host": 3, "n_ncp": 2, "host": host, "late_dup": True, "cancel": False})
        out.append({"window": 3, "n_host": 3, "n_ncp": 3, "host_burst": 3, "ncp_burst": 3, "host": host, "late_dup": True, "cancel": False})
        return out
    for w in (1, 2, 3):
        out.append({"window": w, "n_host": 3, "n_ncp": 3, "host": host})
        out.append({"window": w, "n_host": 3, "n_ncp": 3, "host_burst": 3, "ncp_burst": 3, "host": host})
        out.append({"window": w, "n_host": 2, "n_ncp": 4, "host_burst": 1, "ncp_burst": 4, "host": host})
        out.append({"window": w, "n_host": 3, "n_ncp": 3, "host_burst": 2, "ncp_burst": 2, "host": host, "nak_bad": False})
        out.append({"window": w, "n_host": 3, "n_ncp": 3, "host": host, "late_dup": True})
        out.append({"window": w, "n_host": 3, "n_ncp": 3, "host_burst": 3, "ncp_burst": 3, "host": host, "late_dup": True})
    return out


def wrap_list(tier, host="bellows"):
    n = 10 if tier == "quick" else 18
    return [{"window": w, "n_host": n, "n_ncp": n, "host": host, "cancel": False} for w in ((1, 3) if tier == "quick" else (1, 2, 3))] + \
           [{"window": 3, "n_host": n, "n_ncp": n, "ncp_burst": 3, "host": host, "cancel": False}]


def main(tier: str) -> int:
    rep = report.Report("C01", tier, "model_checking")
    k = 2 if tier == "quick" else 3
    # self-validation of the environment (reference endpoint x reference endpoint)
    sv_params = param_list("quick", "ref")
    sv = explore.dbdfs(("mc.checks.c01", "build"), sv_params[:2] + sv_params[-2:] + wrap_list("quick", "ref")[:1], 2, budget_s=180)
    if sv.violations:
        raise explore.InternalError(f"reference endpoint fails its own oracle: {sv.violations[0][0]} choices={sv.violations[0][2]}")
    st = explore.dbdfs(("mc.checks.c01", "build"), param_list(tier), k, budget_s=(70 if tier == "quick" else 2400))
    st2 = explore.dbdfs(("mc.checks.c01", "build"), wrap_list(tier), 1 if tier == "quick" else 2, budget_s=(40 if tier == "quick" else 1200))
    # the host's own frame numbers on their second lap with TWO deviations (e.g. a late copy of an old ACK + a lost DATA frame): host-only traffic
    st3 = explore.dbdfs(("mc.checks.c01", "build"), [{"window": 1, "n_host": 10 if tier == "quick" else 18, "n_ncp": 0, "host": "bellows", "late_dup": True, "cancel": False}],
                        2 if tier == "quick" else 3, budget_s=(120 if tier == "quick" else 1200))
    for s in (st, st2, st3):
        for v, params, choices, labels in s.violations:
            rep.add_violation(vkey(v), v, {"world": "c01", "params": params, "choices": choices})
    if len(st.signatures) < 30:
        raise explore.InternalError(f"C01 vacuous: {len(st.signatures)} signatures")
    capped = st.capped or st2.capped or st3.capped
    rep.coverage = {
        "states": st.steps + st2.steps + st3.steps,
        "transitions": st.steps + st2.steps + st3.steps,
        "traces_validated_against_impl": st.executions + st2.executions + st3.executions,
        "executions": st.executions + st2.executions + st3.executions,
        "host_only_second_lap_executions": st3.executions,
        "self_validation_executions": sv.executions,
        "max_deviations_completed": k if not st.capped else k - 1,
        "wrap_run_deviations": 1 if tier == "quick" else 2,
        "capped": capped,
        "exhaustive": not capped,
        "distinct_outcome_signatures": len(st.signatures) + len(st2.signatures),
        "max_depth": max(st.max_depth, st2.max_depth),
        "rule": "stateless deviation-bounded DFS, no state merging ('states' = world states visited over all executions): NCP windows 1..3, 3+3 payloads idle-submitted and in bursts "
                "with <= k deviations; 10 (thorough 18) payloads per side (wraps the 3-bit numbers) with <= 1 (2) deviations; deviations = drop / corrupt / duplicate a frame in either "
                "direction, cross-direction reordering, timer stall on either side, early submission, cancellation of a host caller",
        "samples": st.samples[:2] + st2.samples[:1],
    }
    rep.assumptions = [
        "the NCP is mc/env/ref_endpoint.py (UG101 sliding window, go-back-N, reject condition, ackNum range check), validated against a second instance of itself under the same explorer and oracle",
        "the NCP's retransmission timer is an untimed explorer event (over-approximates all timings); the host's timers run on the virtual clock",
        "a UART does not reorder: each direction is a FIFO",
    ]
    return rep.finish()


def replay(data) -> int:
    w = World(data["params"])
    bad = list(w.viol)
    for c in data["choices"]:
        if w.done():
            break
        en = w.enabled()
        print(f"{en[c][0]}   h2n={len(w.h2n)} n2h={len(w.n2h)} ncp={w.ncp.state()}")
        w.apply(c)
        for v in w.viol:
            print("   VIOLATION:", v)
        bad += w.viol
    print(w.signature())
    w.close()
    return 1 if bad else 0
