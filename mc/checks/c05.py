"""C05 -- ASH sends end within the retry budget; a failed link stays silent until reset.

Explicit-state search (level-synchronous ES-BFS, merged on canonical states) over the real
``AshProtocol`` transmit path on a hand-stepped loop with a virtual clock.  K sends are queued;
while a DATA attempt is outstanding the environment chooses the peer's reaction from a fixed
menu (covering ACK, covering DATA, stale ACK, NAK, silence, ERROR, RSTACK, and the coincidences
"reaction lands in the same loop iteration as the ACK timeout" / "NAK and ERROR in one read"),
optionally 0.3 s late or just ahead of the timeout.  After a failure the environment may deliver an RSTACK and a further
send.  The oracle judges the timestamped wire trace incrementally.
"""
from __future__ import annotations

import asyncio

from mc import explore, report
from mc.env import ref_ash
from mc.env.ashworld import FakeTransport, Recorder, patch_time, scalar_state, split_wire
from mc.vloop import VLoop

# UG101 constants, hard-coded here on purpose (the oracle must not follow a changed bellows constant)
T_MIN, T_MAX = 0.4, 3.2
EPS = 1e-9
SLOW = 0.3
ERR_ACK_TIMEOUT = 0x51


def payload(i: int) -> bytes:
    return bytes([0xA0 + (i % 64), i & 0xFF, 0x7E, 0x11, 0x55])


# reaction = (name, frames builder args, when) ; when in {"now", "slow", "deadline"}
# (reaction, when, budget class); budget None = unlimited.  Unlimited: the covering ACK, NAK, silence and the
# (terminal) ERROR frames; everything else draws on a small per-run budget so that the space stays finite.
REACTIONS = [
    ("ack", "now", None), ("ack", "slow", "slow"), ("stale", "now", "stale"), ("stale-1", "now", "stale"), ("stale+4", "now", "stale"),
    ("nak", "now", None), ("nak", "slow", "slow"),
    ("silence", "deadline", None), ("ack", "deadline", "coinc"), ("data", "now", "data"), ("error51", "now", None),
    ("error80", "now", None), ("rstack", "now", "rstack"), ("nak+error", "now", "coinc"), ("error51", "deadline", "coinc"),
    ("nak", "deadline", "coinc"),
    # just ahead of the deadline: the longest measured round trip the adaptive timeout can be fed with
    ("ack", "almost", "slow"), ("nak", "almost", "slow"),
    # a NAK whose ackNum covers the outstanding frame (the NCP took the frame and rejects something later): acknowledges it
    ("nak-covering", "now", "stale"),
]
ALMOST = 0.01
BUDGET_DEFAULT = {"slow": 1, "stale": 1, "coinc": 1, "data": 1, "rstack": 1, "cancel": 0, "hreset": 0}


class Cur:
    """What the monitor remembers about the payload currently on the wire."""

    __slots__ = ("idx", "frm", "n", "last_t", "nak_at", "covered_at", "cov_dl", "abandoned", "open", "stale_used")

    def __init__(self, idx, frm, t):
        self.idx, self.frm, self.n, self.last_t = idx, frm, 1, t
        self.nak_at = None       # time a NAK / failure cause was delivered after the last write
        self.covered_at = None   # time a covering frame was delivered (not at the deadline instant)
        self.cov_dl = None       # covering frame delivered in the same loop iteration as the timeout (either may win)
        self.abandoned = False
        self.open = True         # last write not yet answered terminally by the environment
        self.stale_used = False

    def key(self, now):
        r = lambda x: None if x is None else round(now - x, 9)
        return (self.idx, self.frm, self.n, r(self.last_t), r(self.nak_at), r(self.covered_at), r(self.cov_dl), self.abandoned, self.open, self.stale_used)


class World:
    def __init__(self, params):
        import bellows.ash as ash

        self.p = params
        self.ash = ash
        self.budget = ash.ACK_TIMEOUTS
        self.loop = VLoop().enter()
        patch_time(self.loop)
        self.rec = Recorder(self.loop.time)
        _orig_reset = self.rec.reset_received

        def _reset_hook(code):
            _orig_reset(code)
            self._scan_up()  # the monitor learns of a failure at the instant the upper layer is told

        self.rec.reset_received = _reset_hook
        self.proto = ash.AshProtocol(self.rec)
        self.tr = FakeTransport(self.loop, self.proto)
        self.tr.on_write = self._on_write
        self.proto.connection_made(self.tr)
        self.viol: list[str] = []
        self.step_viol: list[str] = []
        self.outcomes: dict[int, tuple] = {}
        self.tasks: list[asyncio.Task] = []
        self.cur: Cur | None = None
        self.prev_frm: int | None = None       # frame number of the previous payload
        self.restart = True                    # numbering must (re)start at 0
        self.failed = False                    # monitor: link failed, no RSTACK since
        self.fail_reason = None
        self.fail_reports = 0                  # upward reset notifications since the failure
        self.rx_expected = 0                   # host's next expected number (for DATA reactions)
        self.ncp_frm = 0
        self.n_up = 0
        self.left = {k: params.get(k, v) for k, v in BUDGET_DEFAULT.items()}
        self.extras_left = params.get("extras", 0)
        self.recs: dict[int, Cur] = {}
        self.cancelled: set[int] = set()       # sends whose *caller* was cancelled by the environment (the frame stays outstanding)
        self.host_reset_sent = False
        self.recovered = False
        self.midsend_rstack = False
        self.ended = False
        self.stats = {"data_writes": 0, "retx": 0, "fail": 0, "ok": 0, "raised": 0}
        self.next_idx = 0
        # warm-up: n sends, each ACKed at once (drives the adaptive timeout to its floor)
        for _ in range(params.get("warmup", 0)):
            self._submit()
            self.loop.settle()
            self._react("ack", "now")
            if self.viol:
                break
        for _ in range(params["sends"]):
            self._submit()
        self.loop.settle()
        self._scan_up()

    # -- callers ---------------------------------------------------------------------
    def _submit(self):
        i = self.next_idx
        self.next_idx += 1

        async def caller():
            try:
                await self.proto.send_data(payload(i))
            except BaseException as e:  # noqa
                self._outcome(i, type(e).__name__)
                if isinstance(e, asyncio.CancelledError):
                    raise
            else:
                self._outcome(i, "ok")

        self.tasks.append(self.loop.create_task(caller()))

    def _outcome(self, i, res):
        now = self.loop.time()
        self.outcomes[i] = (res, now)
        c = self.recs.get(i)
        if i in self.cancelled and res == "CancelledError":
            # the environment cancelled the caller: sending "cannot really be cancelled" -- the frame stays outstanding, keeps
            # its retry budget and keeps the window; nothing is judged here, the wire monitor goes on
            return
        if res == "ok":
            self.stats["ok"] += 1
            if c is None:
                self._v(f"send {i} returned but its DATA frame was never written")
            elif c.covered_at is None and c.cov_dl is None:
                self._v(f"send returned normally without an acknowledgement covering its frame (attempt {c.n})")
            else:
                c.abandoned = True
        else:
            self.stats["raised"] += 1
            if c is not None:
                c.abandoned = True
                exhausted = c.n >= self.budget
                if not (self.failed or exhausted):
                    self._v(f"send raised {res} although the link has not failed and only {c.n} attempt(s) were made")
            elif not self.failed:
                self._v(f"queued send raised {res} although the link has not failed")

    # -- wire monitor ------------------------------------------------------------------
    def _v(self, msg):
        self.viol.append(msg)

    def _on_write(self, data: bytes):
        now = self.loop.time()
        for f in split_wire(data):
            if f[0] != "DATA":
                continue
            _, frm, retx, ack, pl = f
            self.stats["data_writes"] += 1
            idx = next((i for i in range(self.next_idx) if payload(i) == pl), None)
            if idx is None:
                self._v(f"DATA frame with a payload nobody submitted: {pl.hex()}")
                continue
            if self.failed:
                self._v("DATA frame written while the link is failed and no RSTACK has been received")
            c = self.cur
            if c is not None and c.idx == idx and not c.abandoned:
                # a repeat
                self.stats["retx"] += 1
                c.n += 1
                if c.n > self.budget:
                    self._v(f"DATA frame transmitted {c.n} times, budget is {self.budget}")
                if frm != c.frm:
                    self._v(f"repeat uses frame number {frm}, first transmission used {c.frm}")
                if not retx:
                    self._v("repeat written without the retransmit flag")
                dt = now - c.last_t
                if c.nak_at is not None and abs(c.nak_at - now) < EPS:
                    pass  # immediate repeat on a NAK
                elif not (T_MIN - EPS <= dt <= T_MAX + EPS):
                    self._v(f"repeat after {dt:.4f}s: neither at once on a NAK nor within the ACK timeout range [{T_MIN}, {T_MAX}]")
                if c.covered_at is not None and c.covered_at < now - EPS:
                    self._v("repeat written after a covering acknowledgement had been received")
                c.last_t = now
                c.nak_at = None
                c.open = True
                c.stale_used = False
            else:
                if c is not None and not c.abandoned and c.covered_at is None and c.cov_dl is None:
                    self._v(f"new DATA frame (payload {idx}) written while payload {c.idx} is neither acknowledged nor abandoned")
                if idx in self.recs:
                    self._v(f"payload {idx} transmitted again after its send had ended")
                if retx:
                    self._v("first transmission written with the retransmit flag set")
                if self.restart:
                    if frm != 0:
                        self._v(f"numbering must restart at 0 after RSTACK, frame number {frm} written")
                elif self.prev_frm is not None and frm != (self.prev_frm + 1) % 8:
                    self._v(f"frame numbers not consecutive: {self.prev_frm} then {frm}")
                self.restart = False
                self.prev_frm = frm
                self.cur = self.recs[idx] = Cur(idx, frm, now)

    def _scan_up(self):
        ev = self.rec.events
        while self.n_up < len(ev):
            e = ev[self.n_up]
            self.n_up += 1
            if e[0] == "reset":
                if self.failed and self.fail_reason == "pending-rstack":
                    pass
                if self._expect_rstack_up is not None and e[1] == self._expect_rstack_up:
                    self._expect_rstack_up = None
                    continue
                self.fail_reports += 1
                if not self.failed:
                    # host-detected failure (budget exhausted)
                    self.failed = True
                    self.stats["fail"] += 1
                    self.fail_reason = e[1]
                    c = self.cur
                    if not (c is not None and c.n >= self.budget):
                        self._v(f"link failure {e[1]:#x} reported upward although no send exhausted its budget and no ERROR arrived")
                    elif e[1] != ERR_ACK_TIMEOUT:
                        self._v(f"budget exhausted but the reason reported upward is {e[1]:#x}")
                elif self.fail_reports > 1:
                    self._v("link failure reported upward more than once")
                elif self.fail_reason is not None and e[1] != self.fail_reason:
                    self._v(f"failure reported upward with reason {e[1]:#x}, ERROR frame carried {self.fail_reason:#x}")

    _expect_rstack_up = None

    # -- environment -------------------------------------------------------------------
    def _frames(self, name):
        c = self.cur
        f = c.frm
        if name == "ack":
            return [ref_ash.enc_ack((f + 1) % 8)]
        if name == "stale":
            return [ref_ash.enc_ack(f)]
        if name == "stale-1":      # an acknowledgement that covers nothing outstanding: ackNum of the previous frame
            return [ref_ash.enc_ack((f - 1) % 8)]
        if name == "stale+4":      # ... or far outside the window
            return [ref_ash.enc_ack((f + 4) % 8)]
        if name == "nak":
            return [ref_ash.enc_nak(f)]
        if name == "nak-covering":
            return [ref_ash.enc_nak((f + 1) % 8)]
        if name == "data":
            fr = ref_ash.enc_data(self.ncp_frm, 0, (f + 1) % 8, b"\x01\x02\x03\x04")
            return [fr]
        if name == "error51":
            return [ref_ash.enc_error(0x51)]
        if name == "error80":
            return [ref_ash.enc_error(0x80)]
        if name == "rstack":
            return [ref_ash.enc_rstack(0x0B)]
        if name == "nak+error":
            return [ref_ash.enc_nak(f), ref_ash.enc_error(0x51)]
        if name == "silence":
            return []
        raise ValueError(name)

    def _note_delivery(self, name, at_deadline):
        """Update the monitor for frames about to be delivered."""
        now = self.loop.time()
        c = self.cur
        if name in ("ack", "data", "nak-covering"):
            if not at_deadline:
                c.covered_at = now
            else:
                c.cov_dl = now
            c.open = False
            if name == "data":
                self.ncp_frm = (self.ncp_frm + 1) % 8
        elif name.startswith("stale"):
            c.stale_used = True
        elif name == "nak":
            c.nak_at = now
            c.open = False
        elif name in ("error51", "error80", "nak+error"):
            c.nak_at = now
            c.open = False
            if not self.failed:
                self.failed = True
                self.stats["fail"] += 1
                self.fail_reports = 0
            self.fail_reason = 0x80 if name == "error80" else 0x51
        elif name == "rstack":
            self._rstack_seen()

    def _rstack_seen(self):
        self.host_reset_sent = False
        self.failed = False
        self.fail_reason = None
        self.fail_reports = 0
        self.restart = True
        self.ncp_frm = 0
        self._expect_rstack_up = 0x0B

    def _react(self, name, when):
        frames = self._frames(name)
        data = b"".join(ref_ash.wire(f) for f in frames)
        if when == "slow":
            self.loop._vtime += SLOW
        if when == "almost":
            self.loop._vtime = self.loop.next_deadline() - ALMOST
        if when == "deadline":
            dl = self.loop.next_deadline()
            if dl is None:
                raise explore.InternalError("deadline reaction without a pending timer")
            if name != "silence":
                self.loop._vtime = max(self.loop._vtime, dl)
                self._note_delivery(name, True)
                self.loop.call_soon(self.proto.data_received, data)
            else:
                self.cur.open = False
            self.loop.fire_timers()
        else:
            self._note_delivery(name, False)
            self.loop.call_soon(self.proto.data_received, data)
        failed_before = self.failed
        cur0 = self.cur
        self.loop.settle()
        self._scan_up()
        c = self.cur
        # a covering acknowledgement delivered ahead of the deadline must complete the send now
        if name in ("ack", "data", "nak-covering") and when != "deadline" and cur0 is not None and cur0.covered_at is not None:
            if cur0.idx not in self.outcomes:
                self._v("covering acknowledgement delivered before the timeout but the send did not complete")
        if name.startswith("error") or name == "nak+error":
            if self.fail_reports != 1:
                self._v(f"ERROR frame received: {self.fail_reports} failure notifications reached the upper layer, expected exactly 1")
            pending = [i for i, t in enumerate(self.tasks) if not t.done()]
            if pending:
                self._v(f"link failed but sends {pending} are still waiting")
        if self.failed and not failed_before:
            pending = [i for i, t in enumerate(self.tasks) if not t.done()]
            if pending:
                self._v(f"link failed (budget exhausted) but sends {pending} are still waiting")

    def enabled(self):
        c = self.cur
        out = []
        if c is not None and c.open and not c.abandoned:
            dl = self.loop.next_deadline()
            for name, when, cls in REACTIONS:
                if cls is not None and self.left[cls] <= 0:
                    continue
                if when == "slow" and (dl is None or dl - self.loop.time() <= SLOW + EPS):
                    continue
                if when == "deadline" and dl is None:
                    continue
                if when == "almost" and (dl is None or dl - self.loop.time() <= SLOW + ALMOST + EPS):
                    continue
                if name.startswith("stale") and c.stale_used:
                    continue
                out.append(((name, when, cls), 0 if (name, when) == ("ack", "now") else 1))
            if self.midsend_rstack and self.extras_left > 0:
                out.append((("submit-during-send",), 1))
            if self.left["cancel"] > 0 and c.idx < len(self.tasks) and not self.tasks[c.idx].done():
                out.append((("cancel-caller",), 1))
            return out
        if not all(t.done() for t in self.tasks):
            # a send is waiting although nothing is outstanding: only time can pass
            if self.loop.next_deadline() is not None:
                return [(("timer",), 0)]
            return []
        out.append((("end",), 0))
        if self.failed and self.left["rstack"] > 0:
            out.append((("recover-rstack",), 1))
        if self.failed and self.left["hreset"] > 0 and not self.host_reset_sent:
            out.append((("host-reset",), 1))    # the host asks for a reset (RST written); the link stays failed until the RSTACK
        # a further send is offered on a failed link (must raise at once, silently) and after the link was
        # recovered by an RSTACK (numbering restarts at 0); post-RSTACK states merge well, which keeps the space finite
        if self.extras_left > 0 and (self.failed or self.recovered):
            out.append((("submit",), 1))
        return out

    def apply(self, i):
        self.viol = []
        label = self.enabled()[i][0]
        if label[0] == "end":
            self.ended = True
        elif label[0] == "timer":
            self.loop.fire_timers()
            self.loop.settle()
            self._scan_up()
        elif label[0] == "recover-rstack":
            self.left["rstack"] -= 1
            self.recovered = True
            self._rstack_seen()
            self.loop.call_soon(self.proto.data_received, ref_ash.wire(ref_ash.enc_rstack(0x0B)))
            self.loop.settle()
            self._scan_up()
        elif label[0] == "cancel-caller":
            self.left["cancel"] -= 1
            self.cancelled.add(self.cur.idx)
            self.tasks[self.cur.idx].cancel()
            self.loop.settle()
            self._scan_up()
        elif label[0] == "host-reset":
            self.left["hreset"] -= 1
            self.host_reset_sent = True
            n_data = self.stats["data_writes"]
            try:
                self.proto.send_reset()
            except Exception as e:  # noqa
                self._v(f"send_reset on a failed link raised {type(e).__name__}")
            self.loop.settle()
            self._scan_up()
            if self.stats["data_writes"] != n_data:
                self._v("a DATA frame was written by the reset request")
        elif label[0] == "submit-during-send":
            self.extras_left -= 1
            self._submit()
            self.loop.settle()
            self._scan_up()
        elif label[0] == "submit":
            self.extras_left -= 1
            n_before = len(self.tr.writes)
            was_failed = self.failed
            self._submit()
            self.loop.settle()
            self._scan_up()
            if was_failed:
                i_new = self.next_idx - 1
                if i_new not in self.outcomes or self.outcomes[i_new][0] == "ok":
                    self._v("send on a failed link did not raise at once")
                if len(self.tr.writes) != n_before:
                    self._v("send on a failed link wrote to the port")
        else:
            name, when, cls = label
            if cls is not None:
                self.left[cls] -= 1
            if name == "rstack":
                self.midsend_rstack = True
            self._react(name, when)
        self.step_viol = list(self.viol)

    def step_violations(self):
        return self.step_viol

    def done(self):
        return self.ended

    def finish(self):
        out = []
        for i, t in enumerate(self.tasks):
            if not t.done():
                out.append(f"send {i} never finished")
        return out

    def signature(self):
        return tuple(sorted((i, r) for i, (r, t) in self.outcomes.items())) + (self.stats["retx"], self.stats["fail"])

    def canon(self):
        now = self.loop.time()
        c = self.cur
        return (
            scalar_state(self.proto),
            tuple(round(x, 9) for x in self.loop.pending_timers()),
            c.key(now) if c else None,
            self.prev_frm, self.restart, self.failed, self.fail_reason, self.fail_reports,
            self.ncp_frm, tuple(sorted(self.left.items())), self.extras_left, self.ended, self.recovered, self.midsend_rstack,
            tuple(sorted(self.cancelled)), self.host_reset_sent,
            tuple(sorted((i, r) for i, (r, t) in self.outcomes.items())),
            tuple(t.done() for t in self.tasks),
            self._expect_rstack_up,
        )

    def close(self):
        self.loop.shutdown()


def build(params):
    return World(params)


def vkey(msg):
    import re

    m = re.sub(r"0x[0-9a-fA-F]+|\d+(\.\d+)?", "#", msg)
    m = re.sub(r"\[[^\]]*\]", "", m)
    return "C05|" + re.sub(r"\s+", " ", m).strip()[:90]


def configs(tier):
    lean = {"slow": 0, "stale": 0, "data": 0}
    quick = [
        {"sends": 2, "extras": 0, "slow": 0},                 # consecutive sends, full menu except late reactions
        {"sends": 2, "extras": 0, "cancel": 1, **lean, "coinc": 0, "rstack": 0},   # the caller of the outstanding send is cancelled
        {"sends": 1, "extras": 0},                            # one send, full menu incl. late reactions
        {"sends": 1, "extras": 1, "hreset": 1, **lean},       # failure, silent link (also after the host's own RST), RSTACK recovery, send after recovery
        {"sends": 2, "extras": 1, **lean},
        {"sends": 1, "extras": 1, "warmup": 7, **lean},       # first frame number 7: wraps
        {"sends": 1, "extras": 0, "warmup": 8, "slow": 0, "data": 0},   # frame number 0 on the second lap, with the stale acknowledgements (ackNum 7, 4 ...)
        {"sends": 1, "warmup": 12, "extras": 0, "data": 0, "rstack": 0, "stale": 0},  # adaptive timeout at its floor
    ]
    if tier == "quick":
        return quick
    return quick + [
        {"sends": 2, "extras": 1},
        {"sends": 2, "extras": 2, "slow": 0},
        {"sends": 3, "extras": 0, "slow": 0},
        {"sends": 2, "warmup": 12, "extras": 1, "slow": 0},
        {"sends": 2, "warmup": 6, "extras": 1, "slow": 0},
        {"sends": 1, "warmup": 40, "extras": 1},
        {"sends": 2, "extras": 1, "slow": 2, "coinc": 2, "stale": 2, "data": 0},
    ]


def determinism_check(params):
    """One non-default schedule run twice: identical canonical end states and traces."""
    sched = [3, 5, 6, 0]
    res = []
    for _ in range(2):
        w = World(params)
        for want in sched:
            en = w.enabled()
            if not en or w.done():
                break
            w.apply(min(want, len(en) - 1))
        res.append((explore.canon_digest(w.canon()), [(round(t, 9), d) for t, d in w.tr.writes]))
        w.close()
    if res[0] != res[1]:
        raise explore.InternalError("C05 harness is not deterministic")


def main(tier: str) -> int:
    rep = report.Report("C05", tier, "model_checking")
    tot = {"states": 0, "transitions": 0, "done_states": 0, "max_depth": 0}
    sigs = set()
    samples = []
    per_cfg = []
    closed = True
    for params in configs(tier):
        determinism_check(params)
        g = explore.esbfs_par(("mc.checks.c05", "build"), params, budget_s=(60 if tier == "quick" else 600))
        tot["states"] += g.states
        tot["transitions"] += g.transitions
        tot["done_states"] += g.done_states
        tot["max_depth"] = max(tot["max_depth"], g.max_depth)
        closed = closed and g.closed
        sigs |= {(repr(sorted(params.items())), s) for s in g.signatures}
        samples += [{"params": params, **s} for s in g.samples[:2]]
        per_cfg.append({"params": params, "states": g.states, "transitions": g.transitions, "closed": g.closed, "end_states": g.done_states})
        for v, p, hist, label in g.violations:
            rep.add_violation(vkey(v), v, {"world": "c05", "params": p, "choices": hist})
    if len(sigs) < 10:
        raise explore.InternalError(f"C05 vacuous: only {len(sigs)} distinct outcome signatures")
    rep.coverage = {
        "states": tot["states"],
        "transitions": tot["transitions"],
        "traces_validated_against_impl": tot["transitions"],
        "closed": closed,
        "exhaustive": closed,
        "end_states": tot["done_states"],
        "max_depth": tot["max_depth"],
        "distinct_outcome_signatures": len(sigs),
        "configs": per_cfg,
        "reaction_menu": [list(r) for r in REACTIONS],
        "budgets_default": BUDGET_DEFAULT,
        "rule": "level-synchronous ES-BFS; every transition replays the history on a fresh real AshProtocol and delivers one peer reaction; "
                "state = all scalar attributes of AshProtocol (incl. exact adaptive timeout), pending timers relative to now, monitor state, environment budgets, send outcomes",
        "samples": samples[:6],
    }
    if not closed:
        rep.notes.append("a time budget stopped at least one configuration before closure; see configs[].closed")
    rep.assumptions = [
        "oracle constants 0.4 s / 3.2 s are the UG101 values, hard-coded; the retry budget is read from bellows.ash.ACK_TIMEOUTS",
        "the peer reacts to every attempt with one item of the menu; at most one stale ACK per attempt, 'slow' reactions bounded per run",
        "model = implementation: every transition runs the real AshProtocol on a hand-stepped loop with virtual time",
    ]
    return rep.finish()


def replay(data) -> int:
    w = World(data["params"])
    bad = list(w.viol)
    for c in data["choices"]:
        en = w.enabled()
        print(f"t={w.loop.time():.3f} choose {en[c][0]}")
        w.apply(c)
        for v in w.step_violations():
            print("   VIOLATION:", v)
            bad.append(v)
    if w.done():
        bad += w.finish()
    for t, d in w.tr.writes:
        print(f"   write t={t:.3f} {split_wire(d)}")
    w.close()
    return 1 if bad else 0
