"""C06 -- each EZSP command gets its own response; one in flight; keep-alives go first.

Deviation-bounded stateless search (DB-DFS) over the real ``ProtocolHandler.command`` /
``EZSP.frame_received`` / ``EZSP.handle_callback`` with a fake gateway on a hand-stepped
loop with a virtual clock.  N callers of mixed priority run concurrently; at every quiescent
point the environment either gives the in-flight request its own reply (default) or deviates:
callback frame, duplicate of an earlier reply, reply under a foreign sequence number, silence
until the timeout, late reply to an abandoned request, link-level send failure, a held
(unacknowledged) send, cancellation of any caller, late start of a further caller.
A second world runs 300 sequential commands (sequence wrap) with every single deviation in a
window of positions.
"""
from __future__ import annotations

import asyncio
import itertools

from mc import explore, report, gen_values as gv
from mc.env import ezspenv
from mc.vloop import VLoop

from mc import tunables

CMD_TIMEOUT = tunables.ezsp_cmd_timeout()   # "the command timeout": bellows' tunable, not fixed by the property
EPS = 1e-9
PRIO = {"setExtendedTimeout": -1, "getEui64": 0, "getNodeId": 0, "getValue": 999, "readCounters": 999,
        "getConfigurationValue": 0, "nop": 999, "setSourceRoute": -1, "sendUnicast": -1, "sendMulticast": -1, "sendBroadcast": -1,
        "readAndClearCounters": 999}


def tagged_values(rx, tag):
    """A response value list that identifies the reply it travelled in."""
    import inspect
    import zigpy.types as zt

    if not isinstance(rx, dict):
        return [gv.one(rx, "mid")]
    out = []
    for name, ty in rx.items():
        if inspect.isclass(ty) and issubclass(ty, zt.LVBytes):
            out.append(ty(bytes([tag & 0xFF, 0xEE])))
        elif inspect.isclass(ty) and issubclass(ty, zt.FixedList):
            out.append(ty([ty._item_type(tag & 0xFF)] * ty._length))
        elif inspect.isclass(ty) and issubclass(ty, zt.List):
            out.append(ty([ty._item_type(tag & 0xFF), ty._item_type(7)]))
        elif inspect.isclass(ty) and issubclass(ty, int) and not gv.is_enum(ty) and not gv.is_flag(ty):
            out.append(ty(tag & 0xFF))
        else:
            out.append(gv.one(ty, "first" if gv.is_enum(ty) else "mid"))
    return out


class Req:
    def __init__(self, seq, cid, caller, t):
        self.seq, self.cid, self.caller, self.t_sent = seq, cid, caller, t
        self.send_done = None     # time send_data returned
        self.reply = None         # values of the first own reply delivered while the caller was pending
        self.reply_t = None
        self.failed_send = False


class Caller:
    def __init__(self, idx, name):
        self.idx, self.name = idx, name
        self.task = None
        self.started_at = None    # (batch counter, order)
        self.req = None
        self.outcome = None       # ("ok", values) / ("timeout",) / ("cancelled",) / ("error", repr)
        self.t_done = None
        self.cancelled_by_env = False


class World:
    def __init__(self, params):
        self.p = params
        self.version = params["version"]
        self.loop = VLoop().enter()
        self.ezsp, self.gw = ezspenv.make_ezsp(self.loop, self.version)
        self.h = self.ezsp._protocol
        self.cls = type(self.h)
        self.gw.on_send_all = None
        # registered application callbacks: [callback id, log, active]
        self.recorders = []
        self._register()
        self._register()
        self.viol = []
        self.reqs: list[Req] = []
        self.callers = [Caller(i, n) for i, n in enumerate(params["callers"])]
        self.late = set(params.get("late", ()))
        self.order = 0
        self.tag = 0x20
        self.last_answered_seq = None
        self.last_reply_frame = None
        self.ended = False
        self.free_since = (-1, 0.0)   # (batch counter at which the slot was last released, ...)
        self.left = {"cb": 2, "dup": 1, "foreign": 1, "late": 1, "fail": 1, "hold": 1, "cancel": 2, "T": 3, "reg": 1, "unreg": 1, "collide": 1, "race": 1}
        self.left.update(params.get("budget", {}))
        self.window = params.get("window")
        self.answered = 0
        self.stats = {"timeouts": 0, "cancels": 0, "callbacks": 0, "late_replies": 0, "failed_sends": 0}
        self._patch_gateway()
        if params.get("sequential"):
            self.seq_total = params["sequential"]
            self.driver = self.loop.create_task(self._sequential())
        else:
            for c in self.callers:
                if c.idx not in self.late:
                    self._start(c)
        self.loop.settle()

    def _register(self):
        log = []
        cbid = self.ezsp.add_callback(lambda n, a, log=log: log.append((n, a)))
        self.recorders.append([cbid, log, True])

    def _unregister(self, k):
        rec = self.recorders[k]
        rec[2] = False
        try:
            self.ezsp.remove_callback(rec[0])
        except Exception as e:  # noqa
            self.viol.append(f"remove_callback raised {type(e).__name__} for a registered callback")

    # -- gateway instrumentation --------------------------------------------------------
    def _patch_gateway(self):
        gw = self.gw
        orig = gw.send_data

        async def send_data(data):
            self._on_send(bytes(data))
            req = self.reqs[-1]
            try:
                await orig(data)
            except BaseException:
                req.failed_send = True
                raise
            finally:
                req.send_done = self.loop.time()

        gw.send_data = send_data

    def _on_send(self, data):
        now = self.loop.time()
        hdr = ezspenv.dec_hdr(self.version, data)
        want_layout = ezspenv.layout(self.version)
        if hdr is None:
            self.viol.append(f"request frame not in the {want_layout} header layout: {data.hex()}")
            seq, cid = data[0], None
        else:
            seq, cid, _ = hdr
        caller = next((c for c in self.callers if c.req is None and c.task is not None and not c.task.done()
                       and self.cls.COMMANDS[c.name][0] == cid), None)
        # (5) sequence numbers advance by one
        if self.reqs and seq != (self.reqs[-1].seq + 1) % 256:
            self.viol.append(f"request sequence number {seq} follows {self.reqs[-1].seq}")
        # (3) one in flight
        for r in self.reqs:
            c = r.caller
            if c is not None and c.task is not None and not c.task.done() and not r.failed_send:
                self.viol.append(f"request {cid:#x} handed to the gateway while the call for request seq {r.seq} is still in progress")
        req = Req(seq, cid, caller, now)
        self.reqs.append(req)
        if caller is None:
            if not self.p.get("sequential"):
                self.viol.append(f"request frame {data.hex()} matches no waiting caller")
            return
        caller.req = req
        # (4) priority order among those that were already waiting when the slot was released
        waiting = [d for d in self.callers if d is not caller and d.task is not None and not d.task.done() and d.req is None
                   and d.started_at[0] < self.free_since[0]]
        if caller.started_at[0] < self.free_since[0] or not self.first_send_done:
            for d in waiting:
                if (PRIO[d.name], -d.started_at[1]) > (PRIO[caller.name], -caller.started_at[1]) and self.first_send_done:
                    self.viol.append(f"{caller.name} (priority {PRIO[caller.name]}) was sent while {d.name} (priority {PRIO[d.name]}, waiting "
                                     f"{'longer' if d.started_at[1] < caller.started_at[1] else 'since later'}) was queued")
        self.first_send_done = True

    first_send_done = False

    # -- callers ----------------------------------------------------------------------------
    def _args(self, name):
        cid, tx, rx = self.cls.COMMANDS[name]
        return [gv.one(ty, "mid") for ty in tx.values()]

    def _start(self, c):
        self.order += 1
        c.started_at = (self.loop.batches, self.order)

        async def run():
            try:
                res = await self.ezsp._command(c.name, *self._args(c.name))
            except asyncio.TimeoutError:
                c.outcome = ("timeout",)
            except asyncio.CancelledError:
                c.outcome = ("cancelled",)
                raise
            except BaseException as e:  # noqa
                c.outcome = ("error", type(e).__name__)
            else:
                c.outcome = ("ok", res)
            finally:
                c.t_done = self.loop.time()
                self.free_since = (self.loop.batches, self.loop.time())

        c.task = self.loop.create_task(run())

    async def _sequential(self):
        for k in range(self.seq_total):
            c = Caller(len(self.callers), "getNodeId")
            self.callers.append(c)
            self._start(c)
            try:
                await asyncio.shield(c.task)
            except BaseException:
                pass
            while not c.task.done():
                await asyncio.sleep(0)

    # -- frames -----------------------------------------------------------------------------
    def _reply_frame(self, req, tag):
        name = next(n for n, v in self.cls.COMMANDS.items() if v[0] == req.cid)
        rx = self.cls.COMMANDS[name][2]
        vals = tagged_values(rx, tag)
        return ezspenv.enc_response_hdr(self.version, req.seq, req.cid) + ezspenv.encode_values(rx, vals), name, vals

    def _deliver(self, frame, expect):
        """expect: ("reply", req) | ("callback", name, vals) | ("either", name, vals)"""
        marks = [len(r[1]) for r in self.recorders]
        try:
            self.ezsp.frame_received(frame)
        except BaseException as e:  # noqa
            self.viol.append(f"frame_received raised {type(e).__name__}")
        self.loop.settle()
        got = [r[1][m:] for r, m in zip(self.recorders, marks)]
        active = [g for g, r in zip(got, self.recorders) if r[2]]
        gone = [g for g, r in zip(got, self.recorders) if not r[2]]
        if any(gone):
            self.viol.append("a callback that had been unregistered was invoked")
        if expect[0] == "reply":
            if any(active):
                self.viol.append(f"the reply to a pending call was also delivered to callbacks: {[g for g in active if g][0][:1]}")
        else:
            _, name, vals = expect
            lo = 0 if expect[0] == "either" else 1
            counts = [len(g) for g in active]
            if not all(lo <= c <= 1 for c in counts) or len(set(counts)) > 1:
                self.viol.append(f"frame {name} that answers no pending call reached the registered callbacks {counts} times, expected exactly once each")
            for g in active:
                for n, a in g:
                    if n != name or list(a) != list(vals):
                        self.viol.append(f"callback received ({n}, {a!r:.60}) for a frame carrying ({name}, {vals!r:.60})")
            self.stats["callbacks"] += max(counts or [0])

    def inflight(self):
        """The request whose caller still waits for its reply."""
        for r in self.reqs:
            c = r.caller
            if c is not None and not c.task.done() and not r.failed_send and r.reply is None:
                return r
        return None

    def abandoned(self):
        """Requests sent but never answered whose caller has gone (timeout / cancel)."""
        return [r for r in self.reqs if r.reply is None and not r.failed_send and r.caller is not None and r.caller.task.done()
                and not getattr(r, "late_done", False)]

    # -- explorer interface ---------------------------------------------------------------------
    def _in_window(self):
        return self.window is None or self.window[0] <= self.answered <= self.window[1]

    def enabled(self):
        if self.ended:
            return []
        out = []
        r = self.inflight()
        held = bool(self.gw._held)
        if held:
            out.append((("release",), 0))
        elif r is not None:
            out.append((("reply",), 0))
        else:
            busy = [c for c in self.callers if c.task is not None and not c.task.done()]
            if busy and self.loop.next_deadline() is not None:
                out.append((("T",), 0))
            elif busy and self.p.get("sequential"):
                out.append((("T",), 0))
            else:
                out.append((("end",), 0))
        if not self._in_window():
            return out
        L = self.left
        if r is not None and not held:
            if L["T"] > 0 and self.loop.next_deadline() is not None:
                out.append((("T", "silence"), 1))
            if L["foreign"] > 0:
                out.append((("foreign-seq-reply",), 1))
            if L["collide"] > 0:
                out.append((("callback-with-pending-seq",), 1))
            if L["race"] > 0 and not self.p.get("sequential"):
                # two sources ready in one loop iteration: the reply's I/O callback runs first, then the other event
                if self.loop.next_deadline() is not None:
                    out.append((("reply+timeout-same-iteration",), 1))
                out.append((("reply+cancel-same-iteration",), 1))
        if L["cb"] > 0:
            out.append((("callback",), 1))
        if L["dup"] > 0 and self.last_reply_frame is not None:
            out.append((("dup-reply",), 1))
        if L["late"] > 0 and self.abandoned():
            out.append((("late-reply",), 1))
        if L["unreg"] > 0 and not self.p.get("sequential"):
            out.append((("unregister-callback", 0), 1))
        if L["reg"] > 0 and not self.p.get("sequential"):
            out.append((("register-callback",), 1))
        if L["fail"] > 0 and not self.gw.fail_next:
            out.append((("fail-next-send",), 1))
        if L["hold"] > 0 and not self.gw.hold and not held:
            out.append((("hold-sends",), 1))
        if L["cancel"] > 0:
            for c in self.callers:
                if c.task is not None and not c.task.done() and not self.p.get("sequential"):
                    out.append((("cancel", c.idx), 1))
            if self.p.get("sequential") and r is not None:
                out.append((("cancel", r.caller.idx), 1))
        for c in self.callers:
            if c.task is None and c.idx in self.late:
                out.append((("start", c.idx), 1 if out and out[0][0][0] != "end" else 0))
        return out

    def apply(self, i):
        label = self.enabled()[i][0]
        self.viol = []
        kind = label[0]
        if kind == "end":
            self.ended = True
            self._final()
            return
        if kind == "reply":
            r = self.inflight()
            self.tag += 1
            frame, name, vals = self._reply_frame(r, self.tag)
            r.reply, r.reply_t = vals, self.loop.time()
            self.last_answered_seq = r.seq
            self.last_reply_frame = (frame, name, vals)
            self.answered += 1
            if getattr(r, "collided", False):
                # the call may have been abandoned by the colliding frame: then its reply is an unsolicited frame
                self._deliver(frame, ("either", name, vals))
                r.may_timeout = True
            else:
                self._deliver(frame, ("reply", r))
                # the caller must complete with this reply now
                c = r.caller
                if not c.task.done():
                    self.viol.append(f"{c.name}: own reply (seq {r.seq}) delivered but the call did not complete")
        elif kind in ("reply+timeout-same-iteration", "reply+cancel-same-iteration"):
            self.left["race"] -= 1
            r = self.inflight()
            c = r.caller
            self.tag += 1
            frame, name, vals = self._reply_frame(r, self.tag)
            if kind.startswith("reply+timeout"):
                self.loop._vtime = max(self.loop._vtime, self.loop.next_deadline())
            r.reply, r.reply_t = vals, self.loop.time()
            r.raced = kind
            self.last_answered_seq = r.seq
            self.last_reply_frame = (frame, name, vals)
            self.answered += 1
            marks = [len(x[1]) for x in self.recorders]
            self.loop.call_soon(self.ezsp.frame_received, frame)
            if kind.startswith("reply+timeout"):
                self.loop.fire_timers()
            else:
                c.cancelled_by_env = True
                self.loop.call_soon(c.task.cancel)
            self.loop.settle()
            if any(len(x[1]) != m for x, m in zip(self.recorders, marks) if x[2]) and c.outcome and c.outcome[0] == "ok":
                self.viol.append(f"{c.name}: reply both completed the call and was delivered to callbacks")
            if not c.task.done():
                self.viol.append(f"{c.name}: call still pending after its reply raced with a {'timeout' if 'timeout' in kind else 'cancellation'}")
        elif kind == "T":
            if len(label) > 1:
                self.left["T"] -= 1
            self.loop.fire_timers()
            self.loop.settle()
        elif kind == "callback":
            self.left["cb"] -= 1
            self.tag += 1
            cid, tx, rx = self.cls.COMMANDS["stackStatusHandler"]
            vals = [gv.one(list(rx.values())[0], "last")]
            seq = self.last_answered_seq if self.last_answered_seq is not None else 0xF0
            frame = ezspenv.enc_response_hdr(self.version, seq, cid, callback=True) + ezspenv.encode_values(rx, vals)
            self._deliver(frame, ("callback", "stackStatusHandler", vals))
        elif kind == "dup-reply":
            self.left["dup"] -= 1
            frame, name, vals = self.last_reply_frame
            self._deliver(frame, ("callback", name, vals))
        elif kind == "foreign-seq-reply":
            self.left["foreign"] -= 1
            r = self.inflight()
            self.tag += 1
            frame, name, vals = self._reply_frame(r, self.tag)
            frame = bytes([(r.seq + 113) % 256]) + frame[1:]
            self._deliver(frame, ("callback", name, vals))
        elif kind == "callback-with-pending-seq":
            # a callback frame that happens to carry the in-flight request's sequence number (another frame ID):
            # it must never complete the call; the call may be abandoned (statement only forbids wrong completion)
            self.left["collide"] -= 1
            r = self.inflight()
            r.collided = True
            cid, tx, rx = self.cls.COMMANDS["stackStatusHandler"]
            vals = [gv.one(list(rx.values())[0], "last")]
            frame = ezspenv.enc_response_hdr(self.version, r.seq, cid, callback=True) + ezspenv.encode_values(rx, vals)
            self._deliver(frame, ("either", "stackStatusHandler", vals))
            if r.caller.task.done() and r.caller.outcome and r.caller.outcome[0] == "ok":
                self.viol.append(f"{r.caller.name}: call completed by a frame with its sequence number but another frame ID")
        elif kind == "late-reply":
            self.left["late"] -= 1
            r = self.abandoned()[0]
            r.late_done = True
            self.tag += 1
            frame, name, vals = self._reply_frame(r, self.tag)
            self.stats["late_replies"] += 1
            self._deliver(frame, ("either", name, vals))
        elif kind == "unregister-callback":
            self.left["unreg"] -= 1
            self._unregister(label[1])
        elif kind == "register-callback":
            self.left["reg"] -= 1
            self._register()
        elif kind == "fail-next-send":
            self.left["fail"] -= 1
            self.gw.fail_next = True
            self.stats["failed_sends"] += 1
        elif kind == "hold-sends":
            self.left["hold"] -= 1
            self.gw.hold = True
        elif kind == "release":
            self.gw.hold = False
            self.gw.release()
            self.loop.settle()
        elif kind == "cancel":
            self.left["cancel"] -= 1
            c = self.callers[label[1]]
            c.cancelled_by_env = True
            c.task.cancel()
            self.stats["cancels"] += 1
            self.loop.settle()
        elif kind == "start":
            c = self.callers[label[1]]
            self._start(c)
            self.loop.settle()
        self._judge_finished()

    def _judge_finished(self):
        for c in self.callers:
            if c.task is None or not c.task.done() or getattr(c, "judged", False):
                continue
            c.judged = True
            r = c.req
            out = c.outcome[0] if c.outcome else "none"
            if c.cancelled_by_env:
                if out not in ("cancelled", "ok", "timeout", "error"):
                    self.viol.append(f"{c.name}: cancelled caller ended with {out}")
                continue
            if r is None:
                self.viol.append(f"{c.name}: call ended with {out} before any request was sent")
                continue
            if r.failed_send:
                if out != "error":
                    self.viol.append(f"{c.name}: link-level send failure but the call ended with {out}")
                continue
            if r.reply is not None:
                if out == "timeout" and (getattr(r, "may_timeout", False) or "timeout" in getattr(r, "raced", "")):
                    pass
                elif out != "ok":
                    self.viol.append(f"{c.name}: own reply was delivered while pending but the call ended with {out}")
                elif list(c.outcome[1]) != list(r.reply):
                    self.viol.append(f"{c.name}: call returned {c.outcome[1]!r:.60}, its own reply (seq {r.seq}) carried {r.reply!r:.60}")
            else:
                if out == "ok":
                    self.viol.append(f"{c.name}: call returned {c.outcome[1]!r:.60} although no reply with its sequence number {r.seq} was delivered")
                elif out != "timeout":
                    self.viol.append(f"{c.name}: no reply, expected TimeoutError, got {out}")
                else:
                    self.stats["timeouts"] += 1
                    want = (r.send_done if r.send_done is not None else r.t_sent) + CMD_TIMEOUT
                    if abs(c.t_done - want) > EPS:
                        self.viol.append(f"{c.name}: timed out at +{c.t_done - r.t_sent:.3f}s after the send, expected +{want - r.t_sent:.3f}s")

    def _final(self):
        for c in self.callers:
            if c.task is not None and not c.task.done():
                self.viol.append(f"{c.name}: call never finished")
        # (7) a fresh command starts immediately
        n = len(self.reqs)
        self.gw.hold = False
        self.gw.fail_next = False
        c = Caller(len(self.callers), "getNodeId")
        self.callers.append(c)
        self._start(c)
        self.loop.settle()
        if len(self.reqs) != n + 1:
            self.viol.append("after all calls ended a fresh command was not sent at once (leaked send slot)")
        else:
            r = self.reqs[-1]
            self.tag += 1
            frame, name, vals = self._reply_frame(r, self.tag)
            r.reply = vals
            self._deliver(frame, ("reply", r))
        # one more unsolicited frame: every callback still registered sees it exactly once
        cid, tx, rx = self.cls.COMMANDS["stackStatusHandler"]
        vals = [gv.one(list(rx.values())[0], "first")]
        frame = ezspenv.enc_response_hdr(self.version, self.reqs[-1].seq if self.reqs else 0, cid, callback=True) + ezspenv.encode_values(rx, vals)
        self._deliver(frame, ("callback", "stackStatusHandler", vals))
        self._judge_finished()

    def done(self):
        return self.ended

    def finish(self):
        return []

    def step_violations(self):
        return self.viol

    def signature(self):
        return tuple((c.name, c.outcome[0] if c.outcome else None, c.req.seq if c.req else None) for c in self.callers[:8]) + tuple(sorted(self.stats.items()))

    def close(self):
        self.loop.shutdown()


class DfsWorld:
    def __init__(self, params):
        self.w = World(params)
        self.all = list(self.w.viol)

    def done(self):
        return self.w.done()

    def enabled(self):
        return self.w.enabled()

    def apply(self, i):
        self.w.apply(i)
        self.all += self.w.viol

    def finish(self):
        return self.all

    def signature(self):
        return self.w.signature()

    def close(self):
        self.w.close()


def build(params):
    return DfsWorld(params)


def vkey(msg):
    import re

    m = re.sub(r"[-+]?\d+\.\d+s?", "#", msg)
    m = re.sub(r"0x[0-9a-fA-F]+|\b\d+\b", "#", m)
    m = re.sub(r"\[[^\]]*\]|\([^\)]*\)", "", m)
    return "C06|" + re.sub(r"\s+", " ", m).strip()[:100]


def param_list(tier):
    versions = [4, 5, 7, 8, 13, 14] if tier == "quick" else ezspenv.VERSIONS
    base = ["setExtendedTimeout", "getEui64", "getValue", "readCounters", "getNodeId"]
    out = []
    for v in versions:
        if tier == "quick":
            orders = [base, ["getEui64", "setExtendedTimeout", "getNodeId", "readCounters", "getValue"]]
        else:
            orders = [base, ["getEui64", "setExtendedTimeout", "getNodeId", "readCounters", "getValue"],
                      ["getValue", "getNodeId", "setExtendedTimeout", "getEui64", "readCounters"]]
        for o in orders:
            out.append({"version": v, "callers": o[:4] if tier == "quick" else o, "late": [3] if tier == "quick" else [4]})
        # first-come first-served INSIDE the packet-send class: different packet-send commands queued behind one in flight
        out.append({"version": v, "callers": ["getEui64", "sendMulticast", "sendUnicast", "setSourceRoute", "sendBroadcast"][:4 if tier == "quick" else 5],
                    "late": [3] if tier == "quick" else [4]})
    return out


def renegotiation_cases(rep):
    """The protocol handler is replaced on a live EZSP object (what reset + version negotiation do) after commands have been
    used; the same command names are then called again, concurrently.  Every call must still get its own reply, with one
    request in flight and request sequence numbers restarting at 0 and advancing by one."""
    import bellows.types as t

    n = 0
    for version in ezspenv.VERSIONS:
        for switch_to in ("same", "legacy-then-same"):
            n += 1
            loop = VLoop().enter()
            try:
                ezsp, gw, ncp = ezspenv.make_stack(loop, version)
                sw = getattr(ezsp, "_switch_protocol_version", None)
                if sw is None:
                    return n
                state = {"out": 0, "max": 0, "seqs": []}
                inner = ncp.on_request

                def on_send(data, inner=inner, state=state):
                    state["out"] += 1
                    state["max"] = max(state["max"], state["out"])
                    state["seqs"].append(data[0])
                    inner(data)

                gw.on_send = on_send
                deliver0 = ncp.deliver

                def deliver(frame, state=state, deliver0=deliver0):
                    state["out"] -= 1
                    deliver0(frame)

                ncp.deliver = deliver
                ncp.handlers["getNodeId"] = lambda a: [0x1234]
                ncp.handlers["nop"] = lambda a: []
                ncp.handlers["getEui64"] = lambda a: [t.EUI64(bytes(range(8)))]

                async def batch():
                    return await asyncio.gather(ezsp.getNodeId(), ezsp.nop(), ezsp.getEui64(), return_exceptions=True)

                key = "C06|renegotiation"
                for phase in (0, 1):
                    if phase == 1:
                        if switch_to != "same":
                            sw(4)
                        sw(version)
                        ncp.framing = version
                        state["seqs"].clear()
                    task = loop.create_task(batch())
                    loop.run_until_idle(horizon=loop.time() + 60.0)
                    label = f"v{version} {'after the handler was replaced (' + switch_to + ')' if phase else 'first use'}"
                    if not task.done():
                        rep.add_violation(key, f"{label}: commands never finished", {"world": "c06", "kind": "renegotiation", "version": version})
                        task.cancel()
                        loop.settle()
                        break
                    res = task.result()
                    ok = (len(res) == 3 and not any(isinstance(r, BaseException) for r in res) and list(res[0]) == [0x1234] and list(res[1]) == []
                          and bytes(res[2][0].serialize()) == bytes(range(8)))
                    if not ok:
                        rep.add_violation(key, f"{label}: calls did not return their own replies: {[repr(r)[:40] for r in res]}",
                                          {"world": "c06", "kind": "renegotiation", "version": version})
                    if state["max"] > 1:
                        rep.add_violation(key + "|two-in-flight", f"{label}: {state['max']} requests were awaiting their responses at the same time",
                                          {"world": "c06", "kind": "renegotiation", "version": version})
                    if phase == 1 and state["seqs"] != list(range(len(state["seqs"]))):
                        rep.add_violation(key + "|sequence", f"{label}: request sequence numbers {state['seqs']}, expected 0, 1, 2",
                                          {"world": "c06", "kind": "renegotiation", "version": version})
            finally:
                loop.shutdown()
    return n


def main(tier: str) -> int:
    rep = report.Report("C06", tier, "model_checking")
    n_reneg = renegotiation_cases(rep)
    k = 2 if tier == "quick" else 3
    st = explore.dbdfs(("mc.checks.c06", "build"), param_list(tier), k, budget_s=(60 if tier == "quick" else 1500))
    # sequence wrap: 300 sequential commands, every single deviation inside a window of positions
    wrap_params = []
    for v in ([4, 13] if tier == "quick" else ezspenv.VERSIONS):
        win = (250, 260) if tier == "quick" else (0, 299)
        wrap_params.append({"version": v, "callers": [], "sequential": 300, "window": win})
        if tier == "quick":
            # a deviation among the first commands is met again when the 8-bit sequence number comes round (position + 256)
            wrap_params.append({"version": v, "callers": [], "sequential": 300, "window": (0, 8)})
    st2 = explore.dbdfs(("mc.checks.c06", "build"), wrap_params, 1, budget_s=(60 if tier == "quick" else 1200))
    for s in (st, st2):
        for v, params, choices, labels in s.violations:
            rep.add_violation(vkey(v), v, {"world": "c06", "params": params, "choices": choices})
    if len(st.signatures) < 20:
        raise explore.InternalError(f"C06 vacuous: {len(st.signatures)} distinct outcome signatures")
    capped = st.capped or st2.capped
    rep.coverage = {
        "states": st.steps + st2.steps,
        "transitions": st.steps + st2.steps,
        "traces_validated_against_impl": st.executions + st2.executions,
        "executions": st.executions + st2.executions,
        "max_deviations_completed": (k if not st.capped else k - 1),
        "wrap_executions": st2.executions,
        "renegotiation_cases": n_reneg,
        "capped": capped,
        "exhaustive": not capped,
        "distinct_outcome_signatures": len(st.signatures) + len(st2.signatures),
        "max_depth": max(st.max_depth, st2.max_depth),
        "rule": "stateless deviation-bounded DFS: states/transitions are the world states visited along all executions (no merging); every execution runs the real "
                "ProtocolHandler.command / EZSP.frame_received on a hand-stepped loop; deviations: callback frame, duplicate reply, reply under a foreign sequence number, "
                "silence to the 10 s timeout, late reply to an abandoned request, send failure, held send, cancellation of any caller, late start",
        "samples": st.samples[:3] + st2.samples[:1],
    }
    rep.assumptions = [
        "callback frames carry the sequence number of the last command the NCP answered (real firmware behaviour); a reply to a request whose caller already timed out or was cancelled may be dropped",
        "the command timeout is read from bellows.ezsp.protocol.EZSP_CMD_TIMEOUT (a tunable the property names but does not fix); each caller uses a distinct command so that requests can be attributed",
    ]
    return rep.finish()


def replay(data) -> int:
    if data.get("kind") == "renegotiation":
        rep = report.Report("C06", "quick", "model_checking")
        renegotiation_cases(rep)
        for v in rep.violations:
            print(v.key, v.message)
        return 1 if rep.violations else 0
    w = World(data["params"])
    bad = list(w.viol)
    for c in data["choices"]:
        if w.done():
            break
        en = w.enabled()
        print(f"t={w.loop.time():.3f} {en[c][0]}")
        w.apply(c)
        for v in w.viol:
            print("   VIOLATION:", v)
        bad += w.viol
    print(w.signature())
    w.close()
    return 1 if bad else 0
