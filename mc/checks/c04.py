"""C04 -- host receiver: a DATA payload goes up iff its number is the next expected.

ES-BFS to closure over the real ``AshProtocol`` receive path: every reachable
receiver state x every well-formed frame of the alphabet; then the canonical-state
abstraction is validated by stateless runs, and long wrap-crossing streams are
replayed."""
from __future__ import annotations

import itertools

from mc import explore, report
from mc.env import ref_ash
from mc.env.ashworld import FakeTransport, Recorder, scalar_state, split_wire

CODES = [0x00, 0x01, 0x02, 0x03, 0x06, 0x09, 0x0B, 0x51, 0x80, 0xFF]
PAYLOAD = bytes([0x10, 0x20, 0x30, 0x7E, 0x11])  # includes reserved values
# a payload whose data field, AFTER randomisation, holds an escape byte in front of every byte an escape sequence can carry
# (7D 31, 7D 33, 7D 38, 7D 3A, 7D 5D, 7D 5E, 7D 7D): every third frame fed to the receiver uses it
TRICKY = ref_ash.randomize(bytes([0x7D, 0x31, 0x7D, 0x33, 0x7D, 0x38, 0x7D, 0x3A, 0x7D, 0x5D, 0x7D, 0x5E, 0x7D, 0x7D, 0x42]))


def alphabet():
    ev = []
    for frm in range(8):
        for retx in (0, 1):
            for ack in range(8):
                ev.append(("DATA", frm, retx, ack))
    for kind in ("ACK", "NAK"):
        for ack in range(8):
            for nrdy in (0, 1):
                ev.append((kind, ack, nrdy))
    ev.append(("RST",))
    for c in CODES:
        ev.append(("RSTACK", c))
    for c in CODES:
        ev.append(("ERROR", c))
    return ev


def encode(ev, tag=0) -> bytes:
    k = ev[0]
    if k == "DATA":
        return ref_ash.wire(ref_ash.enc_data(ev[1], ev[2], ev[3], (TRICKY if tag % 3 == 2 else PAYLOAD) + bytes([tag & 0xFF])))
    if k == "ACK":
        return ref_ash.wire(ref_ash.enc_ack(ev[1], ev[2]))
    if k == "NAK":
        return ref_ash.wire(ref_ash.enc_nak(ev[1], ev[2]))
    if k == "RST":
        return ref_ash.wire(ref_ash.enc_rst())
    if k == "RSTACK":
        return ref_ash.wire(ref_ash.enc_rstack(ev[1]))
    if k == "ERROR":
        return ref_ash.wire(ref_ash.enc_error(ev[1]))
    raise ValueError(ev)


def check_step(expected_events, ups, wframes) -> list[str]:
    """Compare one feed against the reference receiver's verdict."""
    out = []
    exp_up = [e for e in expected_events if e[0] in ("up", "reset")]
    if ups != exp_up:
        out.append(f"upward deliveries {ups} != reference {exp_up}")
    exp_w = [e for e in expected_events if e[0] in ("ack", "ack_or_nak")]
    got_w = [f for f in wframes if f != ("can",)]
    if len(got_w) != len(exp_w):
        out.append(f"wrote {got_w}, reference expects {exp_w}")
    else:
        for g, e in zip(got_w, exp_w):
            ok = g[0] in ("ACK", "NAK") and g[3] == e[1] and (e[0] != "ack" or g[0] == "ACK") and not g[1] and not g[2]   # res = nRdy = 0
            if not ok:
                out.append(f"wrote {g}, reference expects {e}")
    return out


_DIAG = None


def diagnostic():
    """Diagnostic counters of AshProtocol (see ashworld.diagnostic_attrs): probe = 12 rounds over the mixed event list."""
    global _DIAG
    if _DIAG is None:
        from mc.env.ashworld import diagnostic_attrs

        holder = {}

        def make():
            holder["w"] = World()
            return holder["w"].proto

        def drive(_proto):
            w = holder["w"]
            for _ in range(12):
                for name in REDUCED:
                    w.feed(reduced_event(name, w.ref.expected))
                    yield

        _DIAG = diagnostic_attrs(make, drive)
    return _DIAG


class World:
    EVENTS = alphabet()

    def __init__(self, params=None):
        from bellows.ash import AshProtocol
        from mc import vclock
        from mc.checks.c02 import _FrozenClock

        vclock.set_clock(_FrozenClock)      # driven synchronously, without a loop: the monotonic clock stands still
        if params and params.get("twin"):
            # another link in the same process, left mid-operation (a frame accepted, half a frame buffered, discarding after a
            # SUBSTITUTE byte): state that leaks between AshProtocol objects (class-level buffers / counters) would show below
            rec0 = Recorder()
            self.twin = AshProtocol(rec0)
            self.twin.connection_made(FakeTransport(None))
            self.twin.data_received(ref_ash.wire(ref_ash.enc_data(0, 0, 0, PAYLOAD + b"\x55")))
            self.twin.data_received(ref_ash.wire(ref_ash.enc_data(1, 0, 0, PAYLOAD + b"\x56"))[:4])
            self.twin.data_received(b"\x18\x42")
        self.rec = Recorder()
        self.proto = AshProtocol(self.rec)
        self.loop = None
        self.ctx = (params or {}).get("ctx")
        if self.ctx:
            # the transmit side of the same object is busy (a host DATA frame outstanding) or has given up (retry budget used up):
            # what the receiver does with the peer's frames must not depend on it
            from mc.env.ashworld import patch_time
            from mc.vloop import VLoop

            self.loop = VLoop().enter()
            patch_time(self.loop)
        self.tr = FakeTransport(self.loop, self.proto if self.loop else None)
        self.proto.connection_made(self.tr)
        self.rec.events.clear()
        self.ref = ref_ash.RefReceiver()
        self.viol: list[str] = []
        self.n = 0
        if self.ctx:
            self.loop.settle()
            for k in range((params or {}).get("tx_prior", 0)):          # acknowledged host sends first: the outstanding frame is number k
                t = self.loop.create_task(self.proto.send_data(bytes([0x21, k, 0x22, 0x23])))
                self.loop.settle()
                self.proto.data_received(ref_ash.wire(ref_ash.enc_ack((k + 1) % 8)))
                self.loop.settle()
            for k in range((params or {}).get("rx_prior", 0)):
                self.feed(("DATA", self.ref.expected, 0, 0))
            if self.ctx == "reset-sent":
                # the host has asked for a reset (RST written) and is waiting for the RSTACK: frames that arrive meanwhile are judged as ever
                self.proto.send_reset()
                self.loop.settle()
                self.tx_task = None
            else:
                self.tx_task = self.loop.create_task(self.proto.send_data(b"\x31\x32\x33\x34"))
                self.tx_task.add_done_callback(lambda t: t.cancelled() or t.exception())
                self.loop.settle()
            if self.ctx == "exhausted":
                for _ in range(12):
                    if self.tx_task.done():
                        break
                    self.loop.fire_timers()
                    self.loop.settle()
            self.rec.events.clear()
            del self.tr.writes[:]

    def enabled(self):
        return [(e, 0) for e in self.EVENTS]

    def feed(self, ev):
        if ev and isinstance(ev[0], tuple):
            # several frames in ONE read (the transmit side cannot run in between)
            data = b""
            for e in ev:
                data += encode(e, self.n)
                self.n += 1
            self.n -= 1
        else:
            data = encode(ev, self.n)
        self.n += 1
        n_up, n_w = len(self.rec.events), len(self.tr.writes)
        self.viol = []
        try:
            self.proto.data_received(data)
            if self.loop is not None:
                self.loop.settle()
        except Exception as e:  # noqa
            self.viol.append(f"data_received raised {type(e).__name__}: {e}")
        ups = [e for e in self.rec.events[n_up:]]
        wframes = split_wire(b"".join(w for _, w in self.tr.writes[n_w:]))
        if self.ctx:
            wframes = [f for f in wframes if f[0] != "DATA"]      # (repeats of the outstanding host frame are the transmit side's business)
        exp = self.ref.feed(data)
        self.viol.extend(f"{ev}: {m}" for m in check_step(exp, ups, wframes))
        return ups, wframes

    def apply(self, i):
        self.feed(self.EVENTS[i])

    def step_violations(self):
        return self.viol

    def canon(self):
        return (scalar_state(self.proto, skip=diagnostic()), self.ref.expected)

    def close(self):
        if self.loop is not None:
            self.loop.shutdown()
            self.loop = None


def tx_context_job(args):
    """Every single frame of the alphabet, and every pair of the relative alphabet, fed while the transmit side of the same
    protocol object is busy / has given up."""
    ctx, tx_prior, rx_prior = args
    out = []
    n = 0
    singles = [[ev] for ev in World.EVENTS]
    pairs = [list(p) for p in itertools.product(REDUCED, repeat=2)]
    for seq in singles + pairs + [("one-read", p) for p in pairs]:
        w = World({"ctx": ctx, "tx_prior": tx_prior, "rx_prior": rx_prior})
        hist = []
        try:
            if w.viol:
                out.append((f"C04|{ctx}|setup", f"while setting up the context ({ctx}): {w.viol[0]}", {"world": "c04", "ctx": ctx, "tx_prior": tx_prior, "rx_prior": rx_prior, "events": []}))
                break
            if seq and seq[0] == "one-read":
                # both frames of the pair arrive in one read; the second is relative to the state the first one leaves
                e1 = reduced_event(seq[1][0], w.ref.expected)
                exp2 = (w.ref.expected + 1) % 8 if (e1[0] == "DATA" and e1[1] == w.ref.expected) else (0 if e1[0] == "RSTACK" else w.ref.expected)
                seq = [(e1, reduced_event(seq[1][1], exp2))]
            for item in seq:
                ev = reduced_event(item, w.ref.expected) if isinstance(item, str) else item
                w.feed(ev)
                hist.append([list(x) for x in ev] if isinstance(ev[0], tuple) else list(ev))
                if w.viol:
                    what = {"inflight": "a host DATA frame outstanding", "exhausted": "the host's retry budget used up (link failed)",
                            "reset-sent": "a reset request written and its RSTACK outstanding"}[ctx]
                    ev = ev[-1] if isinstance(ev[0], tuple) else ev
                    out.append((f"C04|{ctx}|{ev[0]}|{w.viol[0].split(':', 1)[-1].strip()[:50]}", f"with {what} (host frame number {tx_prior % 8}): {w.viol[0]}",
                                {"world": "c04", "ctx": ctx, "tx_prior": tx_prior, "rx_prior": rx_prior, "events": list(hist)}))
                    break
            n += 1
        finally:
            w.close()
    return n, out[:6]


def reduced_event(name, expected):
    e = expected
    table = {
        "in": ("DATA", e, 0, 0),
        "in_retx": ("DATA", e, 1, 3),
        "dup_retx": ("DATA", (e - 1) % 8, 1, 0),
        "dup_plain": ("DATA", (e - 1) % 8, 0, 0),
        "future1": ("DATA", (e + 1) % 8, 0, 0),
        "future2_retx": ("DATA", (e + 2) % 8, 1, 7),
        "ack0": ("ACK", 0, 0),
        "nak3": ("NAK", 3, 1),
        "rst": ("RST",),
        "rstack_sw": ("RSTACK", 0x0B),
        "rstack_pwr": ("RSTACK", 0x02),
        "err51": ("ERROR", 0x51),
        "err80": ("ERROR", 0x80),
        "in_ack5": ("DATA", e, 0, 5),
    }
    return table[name]


REDUCED = ["in", "in_retx", "dup_retx", "dup_plain", "future1", "future2_retx", "ack0", "nak3", "rst",
           "rstack_sw", "rstack_pwr", "err51", "err80", "in_ack5"]


def main(tier: str) -> int:
    rep = report.Report("C04", tier, "model_checking")
    edges = {}

    def on_tr(src, label, dst):
        edges[(src, tuple(label))] = dst

    # --- the same short sequences next to a second, busy link in the same process (isolation between objects) ---
    twin_runs = 0
    for names in itertools.product(REDUCED, repeat=2):
        w = World({"twin": True})
        hist = []
        for nm in names:
            ev = reduced_event(nm, w.ref.expected)
            w.feed(ev)
            hist.append(ev)
            if w.viol:
                rep.add_violation(f"C04|twin|{ev[0]}|{w.viol[0].split(':', 1)[-1].strip()[:50]}", "with a second AshProtocol object alive in the process: " + w.viol[0],
                                  {"world": "c04", "events": list(hist), "twin": True})
                break
        twin_runs += 1

    ctx_runs = 0
    jobs = [(ctx, txp, rxp) for ctx in ("inflight", "exhausted", "reset-sent") for txp, rxp in ((0, 0), (5, 3), (2, 7), (7, 1))]
    if tier != "quick":
        jobs = [(ctx, txp, rxp) for ctx in ("inflight", "exhausted", "reset-sent") for txp in range(8) for rxp in range(8)]
    for cnt, errs in explore.pool().imap_unordered(tx_context_job, jobs):
        ctx_runs += cnt
        for key, msg, rp in errs:
            rep.add_violation(key, msg, rp)

    if rep.violations:
        # already refuted by the short sequences: do not attempt the closure (state leaking between objects also leaks between
        # the replays of the search and makes the space infinite)
        rep.coverage = {"states": 1, "transitions": twin_runs, "traces_validated_against_impl": twin_runs, "closed": False, "exhaustive": False,
                        "twin_instance_sequences": twin_runs, "samples": [{"events": [list(reduced_event(n, 0)) for n in REDUCED[:3]]}]}
        return rep.finish()

    g = explore.esbfs(World, {}, on_transition=on_tr, max_states=20000, budget_s=600)
    for v, params, hist, label in g.violations:
        evs = [World.EVENTS[c] for c in hist]
        last = evs[-1] if evs else None
        key = f"C04|{last[0] if last else 'init'}|{v.split(':', 1)[-1].strip()[:60]}"
        rep.add_violation(key, v, {"world": "c04", "events": evs})
    if not g.closed:
        raise explore.InternalError("C04 state space did not close")

    # --- canon validation + exhaustive short sequences (stateless, no merging) ---
    depth = 3 if tier == "quick" else 4
    seqs = 0
    sigs = set()
    mismatches = 0
    for L in range(1, depth + 1):
        if L < depth:
            continue  # prefixes are covered by the longer sequences
        for names in itertools.product(REDUCED, repeat=L):
            w = World()
            trace = []
            hist = []
            for nm in names:
                ev = reduced_event(nm, w.ref.expected)
                src = w.canon()
                ups, wr = w.feed(ev)
                hist.append(ev)
                dst = w.canon()
                trace.append((tuple(ups), tuple(wr)))
                if w.viol:
                    rep.add_violation(f"C04|{ev[0]}|{w.viol[0].split(':', 1)[-1].strip()[:60]}", w.viol[0],
                                      {"world": "c04", "events": list(hist)})
                pred = edges.get((src, tuple(ev)))
                if pred is None or pred != dst:
                    mismatches += 1
            seqs += 1
            sigs.add(hash(tuple(trace)))
    if mismatches:
        raise explore.InternalError(f"C04 canonical abstraction unsound: {mismatches} transitions differ from the merged graph")

    # --- long deterministic streams crossing the wrap (8 rotations) ---------------
    long_runs = 0
    for rot in range(8):
        w = World()
        hist = []
        # bring expected number to `rot`
        for _ in range(rot):
            ev = ("DATA", w.ref.expected, 0, 0)
            w.feed(ev); hist.append(ev)
        for i in range(64):
            e = w.ref.expected
            pattern = [("DATA", e, 0, i % 8), ("DATA", e, 1, 0), ("DATA", (e + 2) % 8, 0, 0),
                       ("DATA", (e + 1) % 8, 1, 0), ("DATA", (e + 1) % 8, 0, 1), ("ACK", i % 8, 0),
                       ("DATA", (e + 7) % 8, 0, 0), ("NAK", (i + 3) % 8, 0)]
            if i % 23 == 22:
                pattern.append(("RSTACK", 0x0B))
            for ev in pattern:
                w.feed(ev); hist.append(ev)
                if w.viol:
                    rep.add_violation(f"C04|{ev[0]}|{w.viol[0].split(':', 1)[-1].strip()[:60]}", w.viol[0],
                                      {"world": "c04", "events": list(hist)})
                    break
        long_runs += 1

    accepted = sum(1 for (src, lab), dst in edges.items() if lab[0] == "DATA" and lab[1] == src[1])
    if accepted < 8 or g.states < 16:
        raise explore.InternalError(f"C04 vacuous: states={g.states} accepting transitions={accepted}")
    rep.coverage = {
        "states": g.states,
        "transitions": g.transitions,
        "traces_validated_against_impl": g.transitions + seqs + long_runs + twin_runs + ctx_runs,
        "twin_instance_sequences": twin_runs,
        "tx_context_sequences": ctx_runs,
        "closed": g.closed,
        "exhaustive": True,
        "alphabet_size": len(World.EVENTS),
        "stateless_sequences": seqs,
        "stateless_depth": depth,
        "distinct_stateless_traces": len(sigs),
        "accepting_transitions": accepted,
        "abstracted_diagnostic_attributes": list(diagnostic()),
        "long_streams": long_runs,
        "rule": "ES-BFS over (all scalar attributes of AshProtocol, reference expected number); every state x 181 well-formed frames; "
                "then all sequences of the stated depth over a 14-event relative alphabet run without merging and compared edge by edge with the merged graph",
        "samples": g.samples[:3] + [{"stateless_example": [reduced_event(n, 0) for n in REDUCED[:4]]}],
    }
    rep.assumptions = ["the model is the implementation itself: every transition is one real AshProtocol.data_received() call",
                       "reference receiver and encoder are mc/env/ref_ash.py (independent of bellows.ash)"]
    return rep.finish()


def replay(data) -> int:
    w = World({"twin": True} if data.get("twin") else ({"ctx": data["ctx"], "tx_prior": data["tx_prior"], "rx_prior": data["rx_prior"]} if data.get("ctx") else None))
    bad = 0
    for ev in data["events"]:
        ups, wr = w.feed(tuple(ev))
        print(ev, "->", ups, wr, w.viol)
        bad += len(w.viol)
    return 1 if bad else 0
