"""C15 -- host view of the multicast table mirrors the NCP; no leaked slots.

ES-BFS to closure over the real ``bellows.multicast.Multicast`` driven against a
simulated NCP multicast table: every table size 0..4, every initial table in which
each of three groups appears at most once, and from every reachable state every
operation {startup(member groups), subscribe(g), unsubscribe(g)} x every answer to
the table write {success, rejection status, TimeoutError (write not applied)}.
Closure of the canonical state graph covers operation sequences of every length.

Oracle (black box, on every transition): a 25-line reference derived only from the
NCP table decides for each call whether a write may happen, which index it may
target, what the entry must contain and what the call must return.  A leaked or
doubly-owned index shows up as a later call that disagrees with the reference; in
addition the private book-keeping (`_multicast`, `_available`) is compared with the
NCP table in every state when those attributes exist (secondary oracle).
"""
from __future__ import annotations

import asyncio
import collections
import copy
import itertools

from mc import explore, report
from mc.vloop import VLoop

G = (0x1001, 0x2002, 0x3003)
ANSWERS = ("ok", "reject", "timeout")


class FakeEzsp:
    """NCP side: multicast table + config value.  ``family`` selects the status enum
    the real EZSP of that generation returns (EmberStatus before v14, sl_Status from v14)."""

    def __init__(self, table, family):
        self.table = list(table)  # [(multicastId, endpoint)]
        self.family = family
        self.answer = "ok"
        self.writes = []  # (idx, multicastId, endpoint, networkIndex, applied)
        self.reads = 0

    def _st(self, ok):
        import bellows.types as t

        if self.family == "ember":
            return t.EmberStatus.SUCCESS if ok else t.EmberStatus.INDEX_OUT_OF_RANGE
        return t.sl_Status.OK if ok else t.sl_Status.INVALID_INDEX

    async def getConfigurationValue(self, cfg):
        import bellows.types as t

        await asyncio.sleep(0)  # a real EZSP command always yields to the event loop
        assert cfg == t.EzspConfigId.CONFIG_MULTICAST_TABLE_SIZE
        return (self._st(True), len(self.table))

    async def getMulticastTableEntry(self, i):
        import bellows.types as t

        self.reads += 1
        await asyncio.sleep(0)
        gid, ep = self.table[i]
        e = t.EmberMulticastTableEntry()
        e.multicastId = t.EmberMulticastId(gid)
        e.endpoint = t.uint8_t(ep)
        e.networkIndex = t.uint8_t(0)
        return (self._st(True), e)

    async def setMulticastTableEntry(self, idx, entry):
        await asyncio.sleep(0)
        rec = (int(idx), int(entry.multicastId), int(entry.endpoint), int(entry.networkIndex))
        rec += (tuple(self.table),)  # table as the NCP sees it when the write arrives
        seq = self.answer.split("+")          # "ok+timeout": the first write of the call is accepted, every later one times out
        answer = seq[min(len(self.writes), len(seq) - 1)]
        if answer == "timeout":
            self.writes.append(rec + (False,))
            raise asyncio.TimeoutError()
        if answer == "reject" or not (0 <= int(idx) < len(self.table)):
            self.writes.append(rec + (False,))
            return (self._st(False),)
        self.table[int(idx)] = (int(entry.multicastId), int(entry.endpoint))
        self.writes.append(rec + (True,))
        return (self._st(True),)


class Ep:
    def __init__(self, groups):
        self.member_of = {g: None for g in groups}


class Coordinator:
    def __init__(self, eps):
        self.endpoints = {0: Ep((0x9999,))}
        for k, groups in enumerate(eps):
            self.endpoints[k + 1] = Ep(groups)


def fastcopy(x):
    """Structural copy; immutable scalars are shared, bellows structs are shallow-copied
    (their fields are immutable ints)."""
    if isinstance(x, dict):
        return {k: fastcopy(v) for k, v in x.items()}
    if isinstance(x, tuple) and hasattr(x, "_fields"):      # namedtuple
        return type(x)(*(fastcopy(v) for v in x))
    if isinstance(x, (list, tuple)):
        return type(x)(fastcopy(v) for v in x)
    if isinstance(x, (set, frozenset)):
        return x.copy()
    if isinstance(x, (int, float, str, bytes, bool, type(None))):
        return x
    if hasattr(x, "as_dict") or hasattr(x, "replace"):
        return copy.copy(x)
    return copy.deepcopy(x)


def run(coro):
    """Run one operation to completion on a private controlled loop."""
    loop = VLoop()
    with loop:
        task = loop.create_task(coro)
        loop.run_until_idle(horizon=3600.0)
        if not task.done():
            task.cancel()
            loop.settle()
            loop.shutdown()
            return ("hang", None)
        try:
            res = ("ret", task.result())
        except asyncio.TimeoutError:
            res = ("timeout", None)
        except BaseException as e:  # noqa
            res = ("raise", f"{type(e).__name__}: {e}")
        loop.shutdown()
    return res


def is_ok(status):
    import bellows.types as t

    try:
        return t.sl_Status.from_ember_status(status) == t.sl_Status.OK
    except Exception:
        return False


def events():
    ev = [("startup", (), "ok")]
    # member groups per coordinator endpoint; the last one lists a group on two endpoints
    for eps in (((G[0],),), ((G[0], G[1]),), ((G[0],), (G[0], G[1]))):
        for a in ANSWERS[:2]:
            ev.append(("startup", eps, a))
    # start-up whose table writes time out (all of them, or all but the first), or are rejected after the first one was accepted
    for eps in (((G[0],),), ((G[0], G[1]),), ((G[0],), (G[0], G[1]))):
        ev.append(("startup", eps, "timeout"))
        if len(eps) > 1 or len(eps[0]) > 1:
            ev.append(("startup", eps, "ok+timeout"))
            ev.append(("startup", eps, "ok+reject"))
    for g in G:
        for a in ANSWERS:
            ev.append(("subscribe", g, a))
    for g in G:
        for a in ANSWERS:
            ev.append(("unsubscribe", g, a))
    return ev


EVENTS = events()


class World:
    def __init__(self, table, family, normalise=True):
        from bellows.multicast import Multicast

        self.ezsp = FakeEzsp(table, family)
        self.m = Multicast(self.ezsp)
        self.viol = []
        self.normalise = normalise

    def _normalise(self):
        """Which free index `set.pop()` hands out depends on CPython's hidden per-set search finger
        (i.e. on the whole pop/add history), which no canonical state can capture.  The harness owns
        this: after every operation the free set is rebuilt so that the finger is at slot 0.  Any
        element is a legal result of set.pop(), and the oracle accepts any free index, so this selects
        one legal behaviour per state; the un-normalised behaviour is exercised by the stateless pass."""
        if self.normalise and isinstance(getattr(self.m, "_available", None), set):
            self.m._available = set(sorted(self.m._available))

    def clone(self):
        c = World.__new__(World)
        c.ezsp = FakeEzsp(self.ezsp.table, self.ezsp.family)
        c.m = copy.copy(self.m)
        for k, v in vars(self.m).items():
            setattr(c.m, k, c.ezsp if v is self.ezsp else fastcopy(v))
        c.viol = []
        c.normalise = self.normalise
        return c

    # -- reference (depends on the NCP table only) --------------------------------
    def ref_subscribed(self):
        return {gid: i for i, (gid, ep) in enumerate(self.ezsp.table) if ep != 0}

    def ref_free(self):
        return [i for i, (gid, ep) in enumerate(self.ezsp.table) if ep == 0]

    def _single(self, op, g, ans):
        """One subscribe/unsubscribe judged against the reference.  Returns violations."""
        out = []
        sub = self.ref_subscribed()
        free = self.ref_free()
        table_before = list(self.ezsp.table)
        self.ezsp.answer = ans
        self.ezsp.writes = []
        coro = self.m.subscribe(g) if op == "subscribe" else self.m.unsubscribe(g)
        kind, val = run(coro)
        w = self.ezsp.writes
        tag = f"{op}({g:#06x},{ans}) on table {table_before}"
        if kind == "hang":
            return [f"{tag}: call never finished"]
        if kind == "raise":
            return [f"{tag}: raised {val}"]
        if op == "subscribe":
            if g in sub:
                if w:
                    out.append(f"{tag}: group already subscribed but the table was written {w}")
                if not (kind == "ret" and is_ok(val)):
                    out.append(f"{tag}: already subscribed, must return OK, got {kind} {val!r}")
            elif not free:
                if w:
                    out.append(f"{tag}: no free index but the table was written {w}")
                if not (kind == "ret" and not is_ok(val)):
                    out.append(f"{tag}: no free index, must report failure, got {kind} {val!r}")
            else:
                if len(w) != 1:
                    out.append(f"{tag}: expected exactly one table write, saw {w} ({kind} {val!r}); free indices in NCP: {free}")
                else:
                    idx, gid, ep, nwi, _tt, applied = w[0]
                    if idx not in free:
                        out.append(f"{tag}: wrote index {idx} which is in use {table_before[idx] if 0 <= idx < len(table_before) else '(out of range)'}")
                    if gid != g or ep == 0:
                        out.append(f"{tag}: wrote entry (id={gid:#06x}, endpoint={ep}), expected id={g:#06x} with non-zero endpoint")
                    if ans == "ok" and not (kind == "ret" and is_ok(val)):
                        out.append(f"{tag}: write accepted but call reported {kind} {val!r}")
                    if ans == "reject" and not (kind == "ret" and not is_ok(val)):
                        out.append(f"{tag}: write rejected but call reported {kind} {val!r}")
                    if ans == "timeout" and kind == "ret" and is_ok(val):
                        out.append(f"{tag}: write timed out but call reported success")
        else:
            if g not in sub:
                if w:
                    out.append(f"{tag}: group not subscribed but the table was written {w}")
                if not (kind == "ret" and not is_ok(val)):
                    out.append(f"{tag}: not subscribed, must report failure, got {kind} {val!r}")
            else:
                if len(w) != 1:
                    out.append(f"{tag}: expected exactly one table write, saw {w} ({kind} {val!r})")
                else:
                    idx, gid, ep, nwi, _tt, applied = w[0]
                    if idx != sub[g]:
                        out.append(f"{tag}: cleared index {idx}, the group lives at {sub[g]}")
                    if ep != 0:
                        out.append(f"{tag}: wrote endpoint {ep}, expected 0")
                    if ans == "ok" and not (kind == "ret" and is_ok(val)):
                        out.append(f"{tag}: write accepted but call reported {kind} {val!r}")
                    if ans == "reject" and not (kind == "ret" and not is_ok(val)):
                        out.append(f"{tag}: write rejected but call reported {kind} {val!r}")
                    if ans == "timeout" and kind == "ret" and is_ok(val):
                        out.append(f"{tag}: write timed out but call reported success")
        return out

    def _startup(self, eps, ans):
        out = []
        sub = set(self.ref_subscribed())
        free = self.ref_free()
        table_before = list(self.ezsp.table)
        members = []
        for groups in eps:
            for g in groups:
                if g not in members:
                    members.append(g)
        self.ezsp.answer = ans
        self.ezsp.writes = []
        kind, val = run(self.m.startup(Coordinator(eps)))
        tag = f"startup({len(eps)},{ans}) on table {table_before}"
        if kind != "ret" and not (kind == "timeout" and "timeout" in ans):
            # (a start-up whose table write times out may pass the time-out on; the books must still be right afterwards)
            return [f"{tag}: call ended with {kind} {val!r}"]
        # every write must program a member group that the NCP does not hold at that moment into an index
        # that is free at that moment (order and batching are the implementation's business)
        for idx, gid, ep, nwi, table_then, applied in self.ezsp.writes:
            held = {g for g, e in table_then if e != 0}
            free_then = [i for i, (g, e) in enumerate(table_then) if e == 0]
            if gid not in members or ep == 0:
                out.append(f"{tag}: wrote entry (id={gid:#06x}, endpoint={ep}) which is not a subscription of a member group")
            elif gid in held:
                out.append(f"{tag}: programmed group into a second index while the NCP already holds it")
            elif idx not in free_then:
                out.append(f"{tag}: wrote index which is in use")
        now = set(self.ref_subscribed())
        if ans == "ok":
            want_new = [g for g in members if g not in sub]
            if len(now - sub) != min(len(free), len(want_new)) or not (now - sub) <= set(want_new):
                out.append(f"{tag}: member groups subscribed after start-up {sorted(now - sub)}, expected {min(len(free), len(want_new))} of {want_new}")
        elif "+" not in ans and now != sub:
            out.append(f"{tag}: every write was rejected but the NCP table changed")
        if not sub <= now:
            out.append(f"{tag}: start-up removed a subscription")
        return out

    def apply(self, i):
        op, g, ans = EVENTS[i]
        if op == "startup":
            self.viol = self._startup(g, ans)
        else:
            self.viol = self._single(op, g, ans)
        self._normalise()
        self.viol += [f"after {op}({'G' if op != 'startup' else len(g)},{ans}) on table: {m}" for m in self.state_invariant()]
        # nothing may be left running in the background between operations (checked by run(): tasks are done)

    # -- secondary oracle on the private book-keeping -------------------------------
    def host_view(self):
        m = self.m
        if not (hasattr(m, "_multicast") and hasattr(m, "_available")):
            return None
        try:
            used = tuple(sorted((int(g), int(v[1]), int(v[0].endpoint)) for g, v in m._multicast.items()))
            avail = tuple(int(i) for i in m._available)  # iteration order = future pop() order
        except Exception:
            return None
        return used, avail

    def state_invariant(self):
        hv = self.host_view()
        if hv is None:
            return []
        used, avail = hv
        out = []
        n = len(self.ezsp.table)
        sub = self.ref_subscribed()
        host_groups = {g: i for g, i, ep in used}
        if host_groups != sub:
            out.append(f"host groups {host_groups} != NCP entries with endpoint != 0 {sub} (table {self.ezsp.table})")
        if len(set(avail)) != len(avail):
            out.append(f"free list holds an index twice: {avail}")
        idxs = [i for g, i, ep in used] + list(avail)
        if sorted(idxs) != list(range(n)):
            out.append(f"index partition broken: used {[i for g, i, ep in used]} + free {list(avail)} != 0..{n - 1} (table {self.ezsp.table})")
        return out

    def canon(self):
        hv = self.host_view()
        if hv is None:
            hv = repr(sorted((k, repr(v)) for k, v in vars(self.m).items() if k != "_ezsp"))
        return (hv, tuple(self.ezsp.table), self.ezsp.family)

    def canon_sorted(self):
        """Canon modulo the order in which free indices will be handed out (the oracle accepts any free index)."""
        hv = self.host_view()
        if hv is None:
            return self.canon()
        return ((hv[0], tuple(sorted(hv[1]))), tuple(self.ezsp.table), self.ezsp.family)


def initial_tables(size):
    cells = [("free",)] + [("g", g) for g in G]
    for combo in itertools.product(cells, repeat=size):
        gs = [c[1] for c in combo if c[0] == "g"]
        if len(gs) != len(set(gs)):
            continue
        yield tuple((c[1], 1 + (k % 3)) if c[0] == "g" else (0, 0) for k, c in enumerate(combo))


def vkey(msg):
    """Stable key: operation kind + answer + the rule that failed, with every concrete value removed."""
    import re

    head, _, rest = msg.partition(" on table")
    op = head.replace("after ", "").split("(", 1)[0]
    ans = [a for a in ANSWERS if f",{a})" in head]
    rule = rest.split(":", 1)[-1]
    rule = re.sub(r"0x[0-9a-fA-F]+", "", rule)
    rule = re.sub(r"\[[^\]]*\]|\([^\)]*\)|\{[^\}]*\}", "", rule)
    rule = re.sub(r"[^A-Za-z ]+", " ", rule)
    rule = re.sub(r"\s+", " ", rule).strip()
    return f"C15|{'state-after-' if head.startswith('after ') else ''}{op}|{ans[0] if ans else '-'}|{rule[:60]}"


def explore_job(args):
    """BFS to closure for one (status family, table size)."""
    fam, size = args
    import logging

    logging.disable(logging.CRITICAL)
    seen = {}
    frontier = collections.deque()
    transitions = 0
    n_init = 0
    viols = []
    outcome_kinds = collections.Counter()
    for table in initial_tables(size):
        w = World(table, fam)
        w.apply(0)  # startup with no member groups
        n_init += 1
        for v in w.viol:
            viols.append((v, fam, table, (0,)))
        k = w.canon()
        if k not in seen:
            seen[k] = (fam, table, (0,))
            frontier.append((w, (fam, table, (0,))))
    max_depth = 0
    while frontier:
        w, (fam, table, hist) = frontier.popleft()
        for i in range(len(EVENTS)):
            c = w.clone()
            c.apply(i)
            transitions += 1
            outcome_kinds[(EVENTS[i][0], EVENTS[i][2], len(c.ezsp.writes), bool(c.viol))] += 1
            if c.viol and len(viols) < 200:
                for v in c.viol:
                    viols.append((v, fam, table, hist + (i,)))
            k = c.canon()
            if k not in seen:
                seen[k] = (fam, table, hist + (i,))
                max_depth = max(max_depth, len(hist) + 1)
                # a violating state is not expanded: its futures are not meaningful
                if not c.viol:
                    frontier.append((c, (fam, table, hist + (i,))))
    sorted_keys = set()
    for k, (fam_, table_, hist_) in seen.items():
        hv, tab, f = k
        if isinstance(hv, tuple):
            sorted_keys.add(((hv[0], tuple(sorted(hv[1]))), tab, f))
        else:
            sorted_keys.add(k)
    samples = list(seen.values())[-2:]
    return {"fam": fam, "size": size, "states": len(seen), "transitions": transitions, "n_init": n_init,
            "max_depth": max_depth, "kinds": outcome_kinds, "viols": viols, "sorted_keys": sorted_keys, "samples": samples}


def explore_all(tier, rep):
    jobs = [(fam, size) for fam in ("ember", "sl") for size in range(0, 5)
            if not (fam == "sl" and tier == "quick" and size > 3)]
    jobs.sort(key=lambda j: -j[1])
    results = list(explore.pool().imap_unordered(explore_job, jobs, chunksize=1))
    results.sort(key=lambda r: (r["fam"], r["size"]))
    agg = {"states": 0, "transitions": 0, "n_init": 0, "max_depth": 0, "kinds": collections.Counter(), "sorted_keys": set(), "samples": [],
           "per_size": {}}
    viols = []
    for r in results:
        agg["states"] += r["states"]
        agg["transitions"] += r["transitions"]
        agg["n_init"] += r["n_init"]
        agg["max_depth"] = max(agg["max_depth"], r["max_depth"])
        agg["kinds"].update(r["kinds"])
        agg["sorted_keys"] |= r["sorted_keys"]
        agg["samples"] += r["samples"]
        agg["per_size"][f'{r["fam"]}/{r["size"]}'] = r["states"]
        viols += r["viols"]
    viols.sort(key=lambda v: (len(v[3]), v[1], v[2], v[3]))
    for v, fam, table, hist in viols:
        rep.add_violation(vkey(v), v, {"world": "c15", "family": fam, "table": list(table), "events": [EVENTS[j] for j in hist]})
    return agg


def validate_canon(sorted_keys, rep, depth):
    """Stateless re-execution (no merging, fresh objects, full replay from the initial table) of every
    operation sequence of length `depth` from a spread of initial tables; each step is judged by the same
    oracle and the state reached (modulo the hand-out order of free indices, which the oracle does not
    constrain) must be one the merged graph contains."""
    n = 0
    tables = [t for size in (1, 2, 3) for t in initial_tables(size)]
    tables = tables[:: max(1, len(tables) // 12)]
    for table in tables:
        for seq in itertools.product(range(len(EVENTS)), repeat=depth):
            w = World(table, "ember")
            w.apply(0)
            for i in seq:
                w.apply(i)
                if w.viol:
                    for v in w.viol:
                        rep.add_violation(vkey(v), v, {"world": "c15", "family": "ember", "table": list(table),
                                                       "events": [EVENTS[0]] + [EVENTS[j] for j in seq]})
                    break
                if w.canon_sorted() not in sorted_keys:
                    raise explore.InternalError(f"C15 canon validation: state after {seq} from {table} not in merged graph")
            n += 1
        # the same sequences with the implementation's own (history-dependent) choice of free index
        for seq in itertools.product(range(len(EVENTS)), repeat=depth):
            w = World(table, "sl", normalise=False)
            w.apply(0)
            for i in seq:
                w.apply(i)
                if w.viol:
                    for v in w.viol:
                        rep.add_violation(vkey(v), v, {"world": "c15", "family": "sl", "table": list(table), "normalise": False,
                                                       "events": [EVENTS[0]] + [EVENTS[j] for j in seq]})
                    break
            n += 1
    return n


def concurrent_pairs(rep):
    """Two calls for DIFFERENT groups in flight at the same time (zigpy adds endpoints to groups from independent tasks): after both
    have ended the mirror and the index partition must hold, and each accepted subscribe must own an index of its own."""
    n = 0
    g0, g1, g2 = G[0], G[1], G[2]
    for fam in ("ember", "sl"):
        for table in ([(0, 0), (0, 0)], [(g0, 1), (0, 0), (0, 0)], [(g0, 1), (0, 0)], [(0, 0), (0, 0), (0, 0)]):
            for pair in ((("subscribe", g1), ("subscribe", g2)), (("subscribe", g1), ("unsubscribe", g0)), (("unsubscribe", g0), ("subscribe", g2)),
                         # ... and for the SAME group: a subscribe issued while the unsubscribe of that group is still in flight (and the reverse)
                         (("unsubscribe", g0), ("subscribe", g0)), (("subscribe", g1), ("unsubscribe", g1))):
                if any(op == "unsubscribe" and g == g0 for op, g in pair) and not any(gid == g0 for gid, _ in table):
                    continue
                for ans in ("ok", "reject", "timeout", "reject+ok", "timeout+ok", "ok+reject", "ok+timeout"):     # a+b: first write of the two calls answered a, the second b
                    n += 1
                    w = World(tuple(table), fam)
                    w.apply(0)   # startup with no member groups
                    if w.viol:
                        continue
                    w.ezsp.answer = ans
                    w.ezsp.writes = []

                    async def both():
                        return await asyncio.gather(*[getattr(w.m, op)(g) for op, g in pair], return_exceptions=True)

                    kind, val = run(both())
                    w._normalise()
                    msgs = list(w.state_invariant())
                    if kind != "ret":
                        msgs.append(f"the two calls ended with {kind} {val}")
                    if msgs:
                        label = f"concurrent {pair[0][0]}({pair[0][1]:#06x}) || {pair[1][0]}({pair[1][1]:#06x}), NCP answers {ans}, table {table}"
                        rep.add_violation(vkey(label + ": " + msgs[0]), f"{label}: {msgs[0]} (writes {[x[:3] for x in w.ezsp.writes]})",
                                          {"world": "c15-concurrent", "family": fam, "table": [list(x) for x in table], "pair": [list(x) for x in pair], "answer": ans})
    return n


def main(tier: str) -> int:
    rep = report.Report("C15", tier, "model_checking")
    n_conc = concurrent_pairs(rep)
    agg = explore_all(tier, rep)
    if rep.violations:
        # already refuted: the validation runs and the endpoint-level closure add nothing (and need not terminate on such code)
        rep.coverage = {"states": agg["states"], "transitions": agg["transitions"], "traces_validated_against_impl": agg["transitions"], "closed": False,
                        "exhaustive": False, "concurrent_pair_cases": n_conc, "samples": [{"family": s[0], "initial_table": list(s[1]), "events": [list(EVENTS[j]) for j in s[2]]} for s in agg["samples"][:2]]}
        return rep.finish()
    n_stateless = validate_canon(agg["sorted_keys"], rep, 2 if tier == "quick" else 3)
    ep_states = ep_transitions = 0
    for size, ns, nt, viols in explore.pool().map(endpoint_job, [1, 2] if tier == "quick" else [0, 1, 2, 3]):
        if ns < 0:
            for v, sz, hist in viols:
                rep.add_violation(vkey(v), v, {"world": "c15-endpoint", "size": sz, "events": [list(EpWorld.EVENTS[j]) for j in hist]})
            raise explore.InternalError(f"C15 endpoint-level state space did not close ({-ns} states and growing, table size {size})")
        ep_states += ns
        ep_transitions += nt
        for v, sz, hist in viols:
            rep.add_violation(vkey(v), v, {"world": "c15-endpoint", "size": sz, "events": [list(EpWorld.EVENTS[j]) for j in hist]})
    kinds, transitions, n_init, max_depth = agg["kinds"], agg["transitions"], agg["n_init"], agg["max_depth"]
    nontrivial = sum(1 for k in kinds if k[2] > 0)
    if agg["states"] < 100 or nontrivial < 6:
        raise explore.InternalError(f"C15 vacuous: states={agg['states']} kinds={kinds}")
    rep.coverage = {
        "states": agg["states"] + ep_states,
        "states_per_family_size": agg["per_size"],
        "transitions": transitions + ep_transitions,
        "traces_validated_against_impl": transitions + n_stateless + ep_transitions,
        "closed": True,
        "exhaustive": True,
        "initial_states": n_init,
        "concurrent_pair_cases": n_conc,
        "endpoint_states": ep_states,
        "endpoint_transitions": ep_transitions,
        "alphabet_size": len(EVENTS),
        "max_depth": max_depth,
        "stateless_sequences": n_stateless,
        "distinct_outcome_kinds": len(kinds),
        "rule": "ES-BFS to closure; state = (host groups->index, host free set, NCP table, status family); table sizes 0..4, 3 groups, "
                "every initial table with each group at most once; events = startup(member groups) / subscribe / unsubscribe x answer "
                "{ok, reject, timeout}; every transition runs the real Multicast coroutine on a controlled loop and is judged by a "
                "reference computed from the NCP table alone; states after a violation are not expanded",
        "samples": [{"table": list(v[1]), "family": v[0], "events": [EVENTS[j] for j in v[2]]} for v in agg["samples"][-4:]],
    }
    rep.assumptions = [
        "a table write that times out is not applied by the NCP (otherwise no host could mirror the table)",
        "table reads and the table-size read succeed (the property quantifies over write outcomes only)",
        "the model is the implementation: every transition calls the real Multicast.startup/subscribe/unsubscribe",
    ]
    return rep.finish()


def replay(data) -> int:
    if data.get("world") == "c15-concurrent":
        rep = report.Report("C15", "quick", "model_checking")
        concurrent_pairs(rep)
        for v in rep.violations:
            print(v.key, v.message)
        return 1 if rep.violations else 0
    if data.get("world") == "c15-endpoint":
        w = EpWorld(data["size"])
        bad = 0
        for ev in data["events"]:
            w.apply(EpWorld.EVENTS.index(tuple(ev)))
            print(ev, "-> table", w.ezsp.table, "member_of", sorted(int(x) for x in w.ep.member_of), w.viol)
            bad += len(w.viol)
        return 1 if bad else 0
    w = World([tuple(x) for x in data["table"]], data.get("family", "ember"), data.get("normalise", True))
    bad = 0
    for ev in data["events"]:
        def tup(x):
            return tuple(tup(y) for y in x) if isinstance(x, list) else x
        ev = (ev[0], tup(ev[1]), ev[2])
        w.apply(EVENTS.index(ev))
        print(ev, "-> writes", w.ezsp.writes, "table", w.ezsp.table, "host", w.host_view(), w.viol)
        bad += len(w.viol)
    return 1 if bad else 0


# --- group operations through the coordinator endpoint (bellows/zigbee/device.py) ----------------------

class EpWorld:
    """Real ``EZSPEndpoint.add_to_group / remove_from_group`` on a real zigpy device of a real ControllerApplication
    whose multicast controller talks to the simulated table.  Starts from a blank table after start-up."""

    EVENTS = [(op, g, a) for op in ("add", "remove") for g in G[:2] for a in ANSWERS]

    def __init__(self, size):
        import zigpy.device
        import zigpy.types as zt
        import zigpy.zdo.types as zdo_t

        from bellows.multicast import Multicast
        from bellows.zigbee.device import EZSPEndpoint
        from mc.env import appenv

        self.loop = VLoop().enter()
        self.app, _ezsp, _gw, _ncp = appenv.make_app(self.loop, 8)
        self.ezsp = FakeEzsp([(0, 0)] * size, "ember")
        self.app._multicast = Multicast(self.ezsp)
        dev = zigpy.device.Device(self.app, zt.EUI64(bytes(range(8))), zt.NWK(0))
        desc = zdo_t.SimpleDescriptor(endpoint=1, profile=0x0104, device_type=0x0005, device_version=0, input_clusters=[], output_clusters=[])
        self.ep = EZSPEndpoint(dev, 1, desc)
        dev.endpoints[1] = self.ep
        self.viol = []
        self._run(self.app._multicast.startup(Coordinator(())))

    def _run(self, coro):
        task = self.loop.create_task(coro)
        self.loop.run_until_idle(horizon=self.loop.time() + 60)
        if not task.done():
            task.cancel()
            self.loop.settle()
            return ("hang", None)
        if task.exception() is not None:
            return ("raise", type(task.exception()).__name__)
        return ("ret", task.result())

    def apply(self, i):
        op, g, ans = self.EVENTS[i]
        self.viol = []
        member_before = g in self.ep.member_of
        sub = {gid for gid, ep in self.ezsp.table if ep != 0}
        free = [k for k, (gid, ep) in enumerate(self.ezsp.table) if ep == 0]
        self.ezsp.answer = ans
        self.ezsp.writes = []
        kind, val = self._run(self.ep.add_to_group(g) if op == "add" else self.ep.remove_from_group(g))
        tag = f"endpoint {op}_group({g:#06x},{ans}) on table"
        w = self.ezsp.writes
        member_now = g in self.ep.member_of
        if kind == "hang":
            self.viol.append(f"{tag}: call never finished")
            return
        if op == "add":
            if member_before:
                if w or kind != "ret":
                    self.viol.append(f"{tag}: endpoint is already a member but the call wrote {len(w)} entries / ended with {kind}")
            elif g not in sub and not free:
                if kind != "raise" or member_now:
                    self.viol.append(f"{tag}: no free index, expected an error and no membership, got {kind} membership={member_now}")
            else:
                ok = ans == "ok" or g in sub
                if ok and not (kind == "ret" and member_now):
                    self.viol.append(f"{tag}: subscription accepted but the call ended with {kind} {val}, membership={member_now}")
                if not ok and (kind != "raise" or member_now):
                    self.viol.append(f"{tag}: subscription failed but the call ended with {kind}, membership={member_now}")
        else:
            if not member_before:
                if w or kind != "ret":
                    self.viol.append(f"{tag}: endpoint is not a member but the call wrote {len(w)} entries / ended with {kind}")
            else:
                if ans == "ok" and not (kind == "ret" and not member_now):
                    self.viol.append(f"{tag}: unsubscription accepted but the call ended with {kind}, membership={member_now}")
                if ans != "ok" and (kind != "raise" or not member_now):
                    self.viol.append(f"{tag}: unsubscription failed but the call ended with {kind}, membership={member_now}")
        # the endpoint's groups are exactly those programmed in the NCP
        now = {gid for gid, ep in self.ezsp.table if ep != 0}
        if set(int(x) for x in self.ep.member_of) != now:
            self.viol.append(f"{tag}: endpoint is member of {sorted(int(x) for x in self.ep.member_of)} but the NCP has {sorted(now)} programmed")
        m = self.app._multicast
        if isinstance(getattr(m, "_available", None), set):
            m._available = set(sorted(m._available))
            used = sorted(int(v[1]) for v in m._multicast.values())
            if sorted(used + sorted(m._available)) != list(range(len(self.ezsp.table))):
                self.viol.append(f"{tag}: index partition broken: used {used} + free {sorted(m._available)}")

    def canon(self):
        return (tuple(self.ezsp.table), tuple(sorted(int(x) for x in self.ep.member_of)), self.app._multicast and tuple(sorted(getattr(self.app._multicast, "_available", ()))))

    def close(self):
        self.loop.shutdown()


def endpoint_job(size):
    import logging

    logging.disable(logging.CRITICAL)
    seen = {}
    frontier = collections.deque([()])
    w0 = EpWorld(size)
    seen[w0.canon()] = ()
    w0.close()
    viols = []
    transitions = 0
    while frontier:
        hist = frontier.popleft()
        for i in range(len(EpWorld.EVENTS)):
            w = EpWorld(size)
            bad = False
            for c in hist:
                w.apply(c)
            w.apply(i)
            transitions += 1
            for v in w.viol:
                viols.append((v, size, hist + (i,)))
            k = w.canon()
            if k not in seen and not w.viol:
                seen[k] = hist + (i,)
                frontier.append(hist + (i,))
            w.close()
        if len(seen) > 3000:
            # the unchanged code closes at a few dozen states: book-keeping that keeps growing never closes
            return size, -len(seen), transitions, viols
    return size, len(seen), transitions, viols
