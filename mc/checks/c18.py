"""C18 -- status normalisation is total; OK only for success.  Complete enumeration
of both 8-bit status families, every unified status and undefined 32-bit values."""
from __future__ import annotations

from mc import explore, report

# Independently typed from the EmberZNet status headers (numeric values only):
# (family, legacy code) -> unified code
STEERING = {
    ("ember", 0x72): 0x0C03,  # MAX_MESSAGE_LIMIT_REACHED -> ZIGBEE_MAX_MESSAGE_LIMIT_REACHED
    ("ember", 0xA1): 0x0C03,  # NETWORK_BUSY              -> ZIGBEE_MAX_MESSAGE_LIMIT_REACHED
    ("ember", 0x18): 0x0019,  # NO_BUFFERS                -> ALLOCATION_FAILED
    ("ember", 0x93): 0x0017,  # NOT_JOINED
    ("ember", 0x90): 0x0015,  # NETWORK_UP
    ("ember", 0x91): 0x0016,  # NETWORK_DOWN
    ("ember", 0x03): 0x002D,  # NOT_FOUND
    ("ember", 0xB6): 0x002D,  # TABLE_ENTRY_ERASED        -> NOT_FOUND
    ("ember", 0xB1): 0x0027,  # INDEX_OUT_OF_RANGE        -> INVALID_INDEX
}
UNDEFINED_32 = [2**k for k in range(32)] + [2**k - 1 for k in range(2, 33)] + [0x7FFFFFFF, 0xFFFFFFFF, 0x0C1F, 0xABCD1234] + \
    [(hi << 16) | lo for hi in (1, 2, 0x00FF, 0x8000, 0xFFFF) for lo in (0x0000, 0x0001, 0x0004, 0x0015, 0x0016, 0x0017, 0x0027, 0x002D, 0x0C03)]


def one(family: str, value: int):
    import bellows.types as t

    cls = {"ember": t.EmberStatus, "ezsp": t.EzspStatus, "sl": t.sl_Status}[family]
    try:
        inp = cls(value)
    except Exception as e:
        return None, f"cannot construct {cls.__name__}({value:#x}): {e!r}"
    try:
        out = t.sl_Status.from_ember_status(inp)
    except Exception as e:
        return None, f"from_ember_status({inp!r}) raised {type(e).__name__}: {e}"
    if not isinstance(out, t.sl_Status):
        return None, f"from_ember_status({inp!r}) returned {out!r}, not a unified status"
    if family == "sl":
        if out is not inp and not (out == inp and type(out) is type(inp)):
            return out, f"unified status {inp!r} changed to {out!r}"
        # the numeric code itself must survive construction, the wire decoder and the conversion (an undefined code must not be
        # folded onto a defined one), and OK is reported only for code 0
        if int(inp) != value or int(out) != value:
            return out, f"unified status code {value:#010x} became {int(out):#010x} ({out!r})"
        try:
            wire, rest = t.sl_Status.deserialize(value.to_bytes(4, "little"))
        except Exception as e:
            return out, f"unified status code {value:#010x} cannot be decoded from the wire: {e!r}"
        if int(wire) != value or rest:
            return out, f"unified status code {value:#010x} decoded from the wire as {int(wire):#010x}"
        if (int(out) == 0) != (value == 0):
            return out, f"unified status code {value:#010x} reported as {out!r}"
        return out, None
    is_ok = int(out) == 0
    if is_ok != (value == 0):
        return out, f"{inp!r} -> {out!r}: OK must be reported exactly for the family's success code 0x00"
    want = STEERING.get((family, value))
    if want is not None and int(out) != want:
        return out, f"{inp!r} -> {out!r}, steering table requires {want:#06x}"
    return out, None


def cases():
    import bellows.types as t

    for v in range(256):
        yield ("ember", v)
    for v in range(256):
        yield ("ezsp", v)
    for m in t.sl_Status:
        yield ("sl", int(m))
    defined = {int(m) for m in t.sl_Status}
    for v in UNDEFINED_32:
        if v not in defined:
            yield ("sl", v)


def activity_then_sweep(rep):
    """The conversion has to stay a function of its argument while the library is being USED in the same process: after resets of
    an EZSP object (one after the other, and two in flight together -- a second caller joins a reset in progress), protocol-version
    switches and a reconnect, the whole domain is converted again and every answer must be what it was."""
    from mc.env import ezspenv
    from mc.vloop import VLoop

    first = {}
    for fam, v in cases():
        out, err = one(fam, v)
        first[(fam, v)] = (None if out is None else int(out), err)
    loop = VLoop().enter()
    n = 0
    try:
        ezsp, gw = ezspenv.make_ezsp(loop, 8)

        async def activity():
            await ezsp.reset()
            ezsp._switch_protocol_version(13)
            import asyncio

            gw.hold = False
            r = await asyncio.gather(ezsp.reset(), ezsp.reset(), return_exceptions=True)
            ezsp._switch_protocol_version(14)
            await ezsp.reset()
            return r

        task = loop.create_task(activity())
        loop.run_until_idle(horizon=loop.time() + 120.0)
        if not task.done():
            task.cancel()
            loop.settle()
        for fam, v in cases():
            n += 1
            out, err = one(fam, v)
            now = (None if out is None else int(out), err)
            if now != first[(fam, v)]:
                rep.add_violation(f"C18|{fam}|after-activity", f"after resets (also two in flight together) and version switches of an EZSP object in the same process: {fam} {v:#x} -> "
                                  f"{now[0]} ({now[1]}), before: {first[(fam, v)][0]}", {"world": "c18", "family": fam, "value": v, "activity": True})
    finally:
        loop.shutdown()
    return n


def main(tier: str) -> int:
    rep = report.Report("C18", tier, "exploration")
    n = 0
    outs = set()
    nonfail = 0
    samples = []
    for fam, v in cases():
        n += 1
        out, err = one(fam, v)
        if err:
            rep.add_violation(f"C18|{fam}|{v:#x}", err, {"world": "c18", "family": fam, "value": v})
        if out is not None:
            outs.add((fam, int(out)))
            if fam != "sl" and int(out) not in (0, 1):
                nonfail += 1
                if len(samples) < 6:
                    samples.append({"family": fam, "value": hex(v), "unified": repr(out)})
    # ... and the same with the library's loggers switched to DEBUG (records are built and formatted, then discarded): the
    # conversion is total at every log level
    import logging

    class _Null(logging.Handler):
        def emit(self, record):
            record.getMessage()

    lg = logging.getLogger("bellows")
    old_level, old_disable = lg.level, logging.root.manager.disable
    h = _Null()
    logging.disable(logging.NOTSET)
    lg.addHandler(h)
    lg.setLevel(logging.DEBUG)
    try:
        for fam, v in cases():
            n += 1
            out, err = one(fam, v)
            if err:
                rep.add_violation(f"C18|{fam}|debug-logging|{v:#x}" if fam == "sl" else f"C18|{fam}|debug-logging", "with DEBUG logging enabled: " + err,
                                  {"world": "c18", "family": fam, "value": v, "debug": True})
    finally:
        lg.removeHandler(h)
        lg.setLevel(old_level)
        logging.disable(old_disable)
    # The conversion must be a function of its argument alone (no hidden state, e.g. a cache keyed on the bare number):
    # the whole domain is converted again in every order of the three families, each in a *fresh interpreter*, and
    # every answer must equal the first pass.
    import itertools
    import json as _json
    import subprocess
    import sys as _sys

    first = {}
    for fam, v in cases():
        out, err = one(fam, v)
        first[(fam, v)] = None if out is None else int(out)
    code = (
        "import sys, json; sys.path[:0] = %r\n"
        "from mc.checks import c18\n"
        "order = json.loads(sys.argv[1]); res = {}\n"
        "cs = list(c18.cases())\n"
        "for fam in order:\n"
        "    for f, v in cs:\n"
        "        if f == fam:\n"
        "            out, err = c18.one(f, v); res[f + ':' + str(v)] = [None if out is None else int(out), err]\n"
        "print(json.dumps(res))\n"
    ) % ([p for p in _sys.path if p],)
    orders = list(itertools.permutations(["ember", "ezsp", "sl"]))
    procs = [subprocess.Popen([_sys.executable, "-c", code, _json.dumps(list(o))], stdout=subprocess.PIPE, stderr=subprocess.DEVNULL, text=True) for o in orders]
    for o, pr in zip(orders, procs):
        txt, _ = pr.communicate()
        try:
            res = _json.loads(txt.strip().splitlines()[-1])
        except Exception:
            raise explore.InternalError(f"C18 order pass {o} produced no result")
        n += len(res)
        for key, (val, err) in res.items():
            fam, v = key.split(":")
            v = int(v)
            if err and (fam, v) in first and first[(fam, v)] is not None:
                rep.add_violation(f"C18|{fam}|order-dependent", f"families converted in order {o}: {err}", {"world": "c18", "family": fam, "value": v, "order": list(o)})
            elif val != first.get((fam, v)):
                rep.add_violation(f"C18|{fam}|order-dependent", f"families converted in order {o}: {fam} {v:#x} -> {val}, first pass gave {first.get((fam, v))}",
                                  {"world": "c18", "family": fam, "value": v, "order": list(o)})
    n += activity_then_sweep(rep)
    if nonfail < 9:
        raise explore.InternalError(f"C18 vacuous: only {nonfail} legacy codes map to a specific unified status")
    rep.coverage = {
        "evaluations": n,
        "distinct_nontrivial": nonfail,
        "rule": "every value 0..255 of EmberStatus and of EzspStatus, every defined sl_Status member, and undefined 32-bit values (all powers of two and 2^k-1), "
                "converted once in this process and again in all 6 orders of the three families, each order in a fresh interpreter (answers must not depend on history); "
                "non-trivial = a legacy code that maps to a unified status other than OK / generic FAIL",
        "exhaustive": True,
        "distinct_outputs": len(outs),
        "samples": samples,
    }
    rep.assumptions = ["steering table typed from the EmberZNet status headers as numeric values (mc/checks/c18.py STEERING)"]
    return rep.finish()


def replay(data) -> int:
    if data.get("order"):
        for fam in data["order"]:
            for f, v in cases():
                if f == fam:
                    one(f, v)
    out, err = one(data["family"], data["value"])
    print(data["family"], hex(data["value"]), "->", repr(out), err)
    return 1 if err else 0
