"""C02 -- the ASH receiver decodes any byte stream like the reference decoder, for
any chunking.  Bounded exhaustive enumeration of streams x chunkings against
mc/env/ref_ash.RefReceiver; plus large reads, memory bound and the local
commutation step."""
from __future__ import annotations

import functools
import itertools
import tracemalloc

from mc import explore, report
from mc.env import ref_ash
from mc.env.ashworld import FakeTransport, Recorder, scalar_state, split_wire

P3 = b"\x01\x02\x03"


def _body(frame: bytes) -> bytes:
    return ref_ash.stuff(frame)


def tokens() -> dict[str, bytes]:
    badcrc = bytearray(ref_ash.enc_data(0, 0, 0, P3))
    badcrc[-1] ^= 0x01
    # body with ESC + non-reserved complement whose *unescaped-as-is* reading has a valid CRC:
    # take a valid frame and replace one ordinary byte X by ESC,(X^0x20)
    good = ref_ash.enc_data(0, 0, 0, b"\x01\x02\x63")
    st = bytearray(ref_ash.stuff(good))
    idx = next(i for i, b in enumerate(st) if i > 0 and b not in ref_ash.RESERVED and (b ^ 0x20) not in ref_ash.RESERVED and st[i - 1] != ref_ash.ESC)
    badesc = bytes(st[:idx]) + bytes([ref_ash.ESC, st[idx] ^ 0x20]) + bytes(st[idx + 1:])
    # a valid stuffed frame with one extra ESC inserted directly before one of its escape sequences (ESC ESC x):
    # the first ESC escapes the second one, whose complement 0x5D is not reserved -> invalid escape
    st1 = next(x for x in (ref_ash.stuff(ref_ash.enc_data(0, 0, 0, P3 + bytes([v]))) for v in range(256)) if ref_ash.ESC in x)
    k = st1.index(bytes([ref_ash.ESC]))
    dblesc = bytes(st1[:k]) + bytes([ref_ash.ESC]) + bytes(st1[k:])
    return {
        "DBLESC": dblesc,
        "FLAG": b"\x7e", "ESC": b"\x7d", "XON": b"\x11", "XOFF": b"\x13", "SUB": b"\x18", "CAN": b"\x1a",
        "5E": b"\x5e", "5D": b"\x5d", "31": b"\x31", "33": b"\x33", "ORD": b"\x42",
        "ACK0": _body(ref_ash.enc_ack(0)),
        "DATA0": _body(ref_ash.enc_data(0, 0, 0, P3)),
        "DATA1": _body(ref_ash.enc_data(1, 0, 0, P3 + b"\x7e")),
        "DATA0r": _body(ref_ash.enc_data(0, 1, 0, P3)),
        "DATA3": _body(ref_ash.enc_data(3, 0, 0, P3)),
        "RSTACK": _body(ref_ash.enc_rstack(0x0B)),
        "ERROR": _body(ref_ash.enc_error(0x51)),
        "BADCRC": _body(bytes(badcrc)),
        "BADESC": badesc,
    }


TOK = tokens()
# the same frame bodies already terminated by their flag byte, so that a stream of k
# tokens can hold k complete frames
for _n in ["ACK0", "DATA0", "DATA1", "DATA0r", "DATA3", "RSTACK", "ERROR", "BADCRC", "BADESC", "DBLESC"]:
    TOK[_n + "~"] = TOK[_n] + b"\x7e"
TOK["DATA2~"] = _body(ref_ash.enc_data(2, 0, 0, P3)) + b"\x7e"
NAMES = list(TOK)


# --- oracle -------------------------------------------------------------------------

def match_writes(exp_w, got) -> bool:
    """exp_w: [("ack"|"ack_or_nak"|"nak?", n)], got: [(kind, n)].  'nak?' entries come
    in runs (consecutive); a run of k needs between 1 and k NAK(n)."""
    # group runs
    groups = []
    for e in exp_w:
        if e[0] == "nak?" and groups and groups[-1][0] == "run" and groups[-1][1] == e[1]:
            groups[-1][2] += 1
        elif e[0] == "nak?":
            groups.append(["run", e[1], 1])
        else:
            groups.append([e[0], e[1], 1])

    @functools.lru_cache(maxsize=None)
    def go(gi, j):
        if gi == len(groups):
            return j == len(got)
        kind, n, k = groups[gi]
        if kind == "ack":
            return j < len(got) and got[j] == ("ACK", n) and go(gi + 1, j + 1)
        if kind == "ack_or_nak":
            return j < len(got) and got[j][1] == n and go(gi + 1, j + 1)
        # run: consume 1..k NAK(n)
        c = 0
        while c < k and j + c < len(got) and got[j + c] == ("NAK", n):
            c += 1
            if go(gi + 1, j + c):
                return True
        return False

    return go(0, 0)


class _FrozenClock:
    """The receiver is driven synchronously, without a loop: the monotonic clock stands still (a time stamp kept by the
    receiver for diagnostics then cannot differ between two runs of the same input)."""
    _vtime = 1000.0


def fresh(expected: int = 0):
    from bellows.ash import AshProtocol
    from mc import vclock

    vclock.set_clock(_FrozenClock)

    rec = Recorder()
    proto = AshProtocol(rec)
    tr = FakeTransport(None)
    proto.connection_made(tr)
    rec.events.clear()
    ref = ref_ash.RefReceiver()
    for i in range(expected):
        d = ref_ash.wire(ref_ash.enc_data(i % 8, 0, 0, P3))
        proto.data_received(d)
        ref.feed(d)
    rec.events.clear()
    tr.writes.clear()
    return proto, tr, rec, ref


def run_stream(stream: bytes, cuts: tuple[int, ...], expected: int = 0, exp=None) -> str | None:
    """Feed ``stream`` split at ``cuts``; return a violation message or None."""
    proto, tr, rec, ref = fresh(expected)
    if exp is None:
        exp = ref.feed(stream)
    pos = 0
    try:
        for c in cuts + (len(stream),):
            if c > pos:
                proto.data_received(stream[pos:c])
            pos = c
    except Exception as e:  # noqa
        return f"data_received raised {type(e).__name__}: {e}"
    exp_up = [e for e in exp if e[0] in ("up", "reset")]
    if rec.events != exp_up:
        return f"upward {rec.events} != reference {exp_up}"
    frames = split_wire(b"".join(w for _, w in tr.writes))
    got = []
    for f in frames:
        if f == ("can",):
            continue
        if f[0] not in ("ACK", "NAK"):
            return f"receiver wrote unexpected frame {f}"
        if f[1] or f[2]:
            # the reserved bit must be zero; a host that sets "not ready" tells the NCP to hold back its callbacks
            return f"receiver wrote {f[0]} with the reserved / not-ready bit set (res={f[1]}, nRdy={f[2]})"
        got.append((f[0], f[3]))
    exp_w = tuple(e for e in exp if e[0] in ("ack", "ack_or_nak", "nak?"))
    if not match_writes(exp_w, tuple(got)):
        return f"wrote {got}, reference expects {list(exp_w)}"
    return None


def chunkings(n: int, mode: str):
    """Cut-position tuples for a stream of n bytes."""
    if n <= 1:
        yield ()
        return
    if mode == "whole":
        yield ()
        return
    if mode == "all":
        for mask in range(1 << (n - 1)):
            yield tuple(i + 1 for i in range(n - 1) if mask >> i & 1)
        return
    yield ()
    yield tuple(range(1, n))
    for i in range(1, n):
        yield (i,)
    if mode == "pairs":
        for i, j in itertools.combinations(range(1, n), 2):
            yield (i, j)


def token_job(args):
    """All streams with the given first token(s), remaining tokens enumerated."""
    prefix, depth, mode, full_limit = args
    feeds = 0
    streams = 0
    viol = []
    nontrivial = set()
    for L in range(len(prefix), depth + 1):
        for rest in itertools.product(NAMES, repeat=L - len(prefix)):
            names = tuple(prefix) + rest
            stream = b"".join(TOK[n] for n in names)
            ref = ref_ash.RefReceiver()
            exp = ref.feed(stream)
            streams += 1
            if exp:
                nontrivial.add(hash(tuple(exp)))
            m = "all" if len(stream) <= full_limit else mode
            for cuts in chunkings(len(stream), m):
                feeds += 1
                msg = run_stream(stream, cuts, 0, exp)
                if msg:
                    if len(viol) < 5:
                        viol.append((names, cuts, stream.hex(), msg))
                    break
    return streams, feeds, viol, nontrivial


INTERESTING = [0x7E, 0x7D, 0x11, 0x13, 0x18, 0x1A, 0x5E, 0x5D, 0x31, 0x33, 0x38, 0x3A, 0x00, 0x01, 0x20, 0x42,
               0x80, 0x81, 0xA0, 0xC0, 0xC1, 0xC2, 0xC3, 0xFF, 0x38, 0xBC, 0x02, 0x0B, 0x0A, 0x52, 0x70, 0x78]


def raw_job(args):
    first, expected, three = args
    feeds = 0
    viol = []
    vals = sorted(set(INTERESTING))
    if three:
        streams = (bytes([first, b, c]) for b in vals for c in vals)
    else:
        streams = (bytes([first, b]) for b in range(256))
    for s in streams:
        for cuts in chunkings(len(s) + 1, "all" if expected in (0, 5) else "whole"):
            feeds += 1
            msg = run_stream(s + b"\x7e", cuts, expected)
            if msg and len(viol) < 3:
                viol.append((("raw",), cuts, (s + b"\x7e").hex(), msg))
    return 0, feeds, viol, set()


def ctrl_job(args):
    """Every control byte 0..255 (reserved / not-ready bits of ACK and NAK included) in front of a few data fields, with a
    *valid* CRC, stuffed and flag-terminated, from one expected-number state: whole and bytewise."""
    expected, = args
    feeds = 0
    viol = []
    for ctrl in range(256):
        for field in (b"", b"\x02\x0b", b"\x02\x51", P3):
            wire = ref_ash.wire(ref_ash.with_crc(bytes([ctrl]) + field))
            for cuts in ((), tuple(range(1, len(wire)))):
                feeds += 1
                msg = run_stream(wire, cuts, expected)
                if msg and len(viol) < 3:
                    viol.append((("ctrl", ctrl), cuts, wire.hex(), msg))
    # RSTACK and ERROR with each of the 256 reset / error codes (most of them have no name in bellows' enumeration): the
    # notification passed up carries the code that was on the wire
    for ctrl in (0xC1, 0xC2):
        for code in range(256):
            wire = ref_ash.wire(ref_ash.with_crc(bytes([ctrl, 0x02, code])))
            for cuts in ((), tuple(range(1, len(wire)))):
                feeds += 1
                msg = run_stream(wire, cuts, expected)
                if msg and len(viol) < 3:
                    viol.append((("code", ctrl, code), cuts, wire.hex(), msg))
    return 0, feeds, viol, set()


def large_reads(rep):
    """Many complete frames per read: nothing may be lost as long as the
    unterminated residue stays below the buffer bound."""
    n_feeds = 0
    for nframes in (1, 2, 100, 126, 127, 128, 150, 300):
        frames = [ref_ash.wire(ref_ash.enc_data(i % 8, 0, 0, P3)) for i in range(nframes)]
        stream = b"".join(frames)
        cutsets = [()]
        cutsets += [(c,) for c in range(1020, 1031) if c < len(stream)]
        # residue (a partial frame) left by a first read, then one read completing it and adding more
        cutsets += [(3,), (len(frames[0]) - 1,)]
        for cuts in cutsets:
            n_feeds += 1
            msg = run_stream(stream, tuple(sorted(set(cuts))), 0)
            if msg:
                short = msg if len(msg) < 300 else msg[:300] + "..."
                rep.add_violation("C02|large-read|complete-frames-dropped",
                                  f"{nframes} valid in-sequence DATA frames ({len(stream)} bytes) read with cuts {cuts}: {short}",
                                  {"world": "c02", "kind": "large", "nframes": nframes, "cuts": list(cuts)})
    # partial frame residue + a read that makes the buffer exceed the bound
    for residue in (1, 5, 100, 500):
        frames = [ref_ash.wire(ref_ash.enc_data(i % 8, 0, 0, bytes(range(3, 3 + 100)))) for i in range(12)]
        stream = b"".join(frames)
        n_feeds += 1
        msg = run_stream(stream, (residue,), 0)
        if msg:
            short = msg if len(msg) < 300 else msg[:300] + "..."
            rep.add_violation("C02|large-read|residue-plus-read-over-bound",
                              f"partial frame of {residue} bytes buffered, then a {len(stream) - residue}-byte read completing it: {short}",
                              {"world": "c02", "kind": "residue", "residue": residue})
    # a DATA frame whose data field is longer than the 256-byte randomisation sequence cannot be decoded by any conforming
    # receiver: valid CRC or not, nothing may be handed up and the expected number must not move
    for n in (257, 300, 600):
        body = ref_ash.with_crc(bytes([0x00]) + bytes((i * 5 + 1) & 0xFF for i in range(n)))
        for cuts in ((), (100,), tuple(range(50, len(body), 50))):
            n_feeds += 1
            proto, tr, rec, ref = fresh(0)
            wire = ref_ash.stuff(body) + b"\x7e" + ref_ash.wire(ref_ash.enc_data(0, 0, 0, P3))
            pos = 0
            try:
                for c in list(cuts) + [len(wire)]:
                    proto.data_received(wire[pos:c])
                    pos = c
            except Exception as e:  # noqa
                rep.add_violation("C02|overlong|raised", f"{n}-byte data field: data_received raised {type(e).__name__}", {"world": "c02", "kind": "overlong", "n": n})
                continue
            ups = [e for e in rec.events if e[0] == "up"]
            if len(ups) != 1 or ups[0][1] != P3:
                rep.add_violation("C02|overlong|delivered", f"a DATA frame with a {n}-byte data field (valid CRC) followed by a normal frame 0: handed up "
                                  f"{[(u[0], len(u[1])) for u in ups]}, expected only the normal frame", {"world": "c02", "kind": "overlong", "n": n})
    # after more than a buffer-full of bytes without any control byte (several reads), a FLAG and normal frames in short reads are
    # decoded as usual: the receiver must not stay deaf
    for total, piece in ((1500, 700), (2300, 1024), (5000, 999)):
        n_feeds += 1
        proto, tr, rec, ref = fresh(0)
        try:
            left = total
            while left > 0:
                proto.data_received(bytes([0x42]) * min(piece, left))
                left -= piece
            good = b"\x7e" + ref_ash.wire(ref_ash.enc_data(0, 0, 0, P3)) + ref_ash.wire(ref_ash.enc_data(1, 0, 0, P3))
            for i in range(0, len(good), 3):
                proto.data_received(good[i:i + 3])
        except Exception as e:  # noqa
            rep.add_violation("C02|recovery|raised", f"garbage then frames: data_received raised {type(e).__name__}", {"world": "c02", "kind": "recovery", "total": total})
            continue
        ups = [e for e in rec.events if e[0] == "up"]
        if len(ups) != 2:
            rep.add_violation("C02|recovery|deaf", f"after {total} bytes without a control byte (reads of {piece}), a FLAG and two in-sequence DATA frames in 3-byte reads: "
                              f"{len(ups)} payload(s) handed up, expected 2", {"world": "c02", "kind": "recovery", "total": total, "piece": piece})
    return n_feeds


def memory_job(args):
    """One (garbage class, read size) cell of the memory matrix."""
    cname, unit, size, reads = args
    import bellows.ash as ash

    out = []
    proto, tr, rec, ref = fresh(0)
    chunk = (unit * (size // len(unit) + 1))[:size]
    tracemalloc.start()
    base = tracemalloc.get_traced_memory()[0]
    worst_buf = worst_mem = n = 0
    try:
        for _ in range(reads):
            proto.data_received(chunk)
            n += 1
            worst_buf = max(worst_buf, len(proto._buffer))
            worst_mem = max(worst_mem, tracemalloc.get_traced_memory()[0] - base)
    except Exception as e:  # noqa
        out.append((f"C02|memory|{cname}|raise", f"garbage class {cname} x {size}: raised {type(e).__name__}: {e}"))
    finally:
        tracemalloc.stop()
    if rec.events:
        out.append((f"C02|memory|{cname}|delivery", f"flag-free garbage {cname} produced upward {rec.events[:3]}"))
    if worst_buf > ash.MAX_BUFFER_SIZE or worst_mem > ash.MAX_BUFFER_SIZE * 4 + 16384:
        out.append((f"C02|memory|{cname}|unbounded",
                    f"garbage class {cname}, {reads} reads of {size} bytes: buffer {worst_buf} bytes, retained {worst_mem} bytes"))
    return n, [(k, m, {"world": "c02", "kind": "memory", "class": cname, "size": size}) for k, m in out]


def memory_jobs(tier):
    classes = {"ordinary": b"\xee", "esc": b"\x7d", "xon": b"\x11", "can": b"\x1a", "sub": b"\x18", "mixed": b"\xee\x7d\x11\x13\x1a\x18\x5e"}
    reads = 64 if tier == "thorough" else 8
    for cname, unit in classes.items():
        cheap = cname in ("ordinary", "esc", "sub")
        sizes = [1, 1023, 1024, 1025, 65536]
        if cheap:
            sizes += [1 << 20] + ([4 << 20] if tier == "thorough" else [])
        elif tier == "thorough":
            sizes += [1 << 20]
        for size in sizes:
            yield (cname, unit, size, reads if size <= 65536 or cheap else 4)


_DIAG = None


def diagnostic():
    """Diagnostic counters of the receiver (ashworld.diagnostic_attrs): a read counter or a byte total legitimately differs
    between "one read" and "two reads" and must not take part in the state comparison of the commutation step."""
    global _DIAG
    if _DIAG is None:
        from mc.env.ashworld import diagnostic_attrs

        def make():
            return fresh(0)[0]

        def drive(proto):
            for _ in range(4):
                for nm in NAMES:
                    try:
                        proto.data_received(TOK[nm])
                    except Exception:  # noqa
                        pass
                    yield

        _DIAG = diagnostic_attrs(make, drive)
    return _DIAG


def commutation_states(depth):
    states = {}
    for L in range(depth + 1):
        for names in itertools.product(NAMES, repeat=L):
            proto, tr, rec, ref = fresh(0)
            try:
                for nm in names:
                    proto.data_received(TOK[nm])
            except Exception:  # noqa -- a stream that raises is reported by the stream enumeration; it is not a state
                continue
            k = scalar_state(proto, skip=diagnostic())
            if k not in states:
                states[k] = names
    return list(states.values())


def commutation_job(names):
    """For one receiver state (reached by feeding ``names``) and every token pair
    (x, y): feeding x+y in one read equals feeding x then y."""
    n = 0
    out = []
    for x, y in itertools.product(NAMES, repeat=2):
        res = []
        for split in (False, True):
            proto, tr, rec, ref = fresh(0)
            try:
                for nm in names:
                    proto.data_received(TOK[nm])
                if split:
                    proto.data_received(TOK[x]); proto.data_received(TOK[y])
                else:
                    proto.data_received(TOK[x] + TOK[y])
            except Exception as e:  # noqa
                res.append(("raised", repr(e)))
                continue
            res.append((scalar_state(proto, skip=diagnostic()), tuple(rec.events), b"".join(w for _, w in tr.writes)))
        n += 1
        if res[0] != res[1] and len(out) < 3:
            out.append((f"C02|commute|{x}+{y}", f"after {names}: feeding {x}+{y} in one read differs from two reads",
                        {"world": "c02", "kind": "commute", "prefix": list(names), "x": x, "y": y}))
    return n, out


def inflight_streams(rep):
    """The same receiver while the transmit side of the object has a DATA frame outstanding (the sender is suspended on its
    acknowledgement): every stream of 2 and 3 frames over {NAK, covering / stale ACK, ERROR, RSTACK, DATA with both ackNum
    values, a damaged frame}, in one read and byte by byte.  Nothing may raise out of the receive callback or out of the loop
    afterwards, and what is passed up is what the reference decoder passes up."""
    from bellows.ash import AshProtocol
    from mc.env.ashworld import patch_time
    from mc.vloop import VLoop

    toks = {
        "NAK0": ref_ash.wire(ref_ash.enc_nak(0)), "ACK1": ref_ash.wire(ref_ash.enc_ack(1)), "ACK0": ref_ash.wire(ref_ash.enc_ack(0)),
        "ERROR": ref_ash.wire(ref_ash.enc_error(0x51)), "RSTACK": ref_ash.wire(ref_ash.enc_rstack(0x0B)),
        "DATA0a1": ref_ash.wire(ref_ash.enc_data(0, 0, 1, P3)), "DATA0a0": ref_ash.wire(ref_ash.enc_data(0, 0, 0, P3)),
        "BADCRC": TOK["BADCRC~"],
    }
    n = 0
    for L in (2, 3):
        for names in itertools.product(toks, repeat=L):
            stream = b"".join(toks[x] for x in names)
            for mode in ("whole", "bytewise"):
                n += 1
                loop = VLoop().enter()
                msg = None
                try:
                    patch_time(loop)
                    rec = Recorder()
                    proto = AshProtocol(rec)
                    tr = FakeTransport(loop, proto)
                    proto.connection_made(tr)
                    loop.settle()
                    rec.events.clear()
                    task = loop.create_task(proto.send_data(b"\x41\x42\x43\x44"))
                    task.add_done_callback(lambda t: t.cancelled() or t.exception())
                    loop.settle()
                    ref = ref_ash.RefReceiver()
                    exp = [e for e in ref.feed(stream) if e[0] in ("up", "reset")]
                    try:
                        if mode == "whole":
                            proto.data_received(stream)
                        else:
                            for b in stream:
                                proto.data_received(bytes([b]))
                        loop.settle()
                    except (KeyboardInterrupt, SystemExit):
                        raise
                    except BaseException as e:  # noqa
                        msg = f"data_received raised {type(e).__name__}: {e}"
                    if msg is None:
                        esc = loop.escaped_callback_exceptions()
                        if esc:
                            msg = f"an exception escaped from a loop callback afterwards: {esc[0]}"
                        elif rec.events != exp:
                            msg = f"upward {rec.events} != reference {exp}"
                finally:
                    loop.shutdown()
                if msg:
                    rep.add_violation(f"C02|send-in-flight|{msg.split(':')[0][:50]}", f"with a host DATA frame outstanding, stream {'+'.join(names)} ({mode}): {msg}",
                                      {"world": "c02", "kind": "inflight", "names": list(names), "mode": mode})
                    if len(rep.violations) > 20:
                        return n
    return n


def main(tier: str) -> int:
    rep = report.Report("C02", tier, "exploration")
    depth = 3 if tier == "quick" else 4
    jobs = []
    # full 2^(n-1) chunkings for streams of <= 12 bytes; whole / bytewise / all single cuts / all cut pairs above
    if depth == 3:
        jobs += [((a, b), depth, "single", 10) for a in NAMES for b in NAMES] + [((a,), 1, "single", 10) for a in NAMES]
    else:
        jobs += [((a, b), depth, "pairs", 12) for a in NAMES for b in NAMES] + [((a,), 1, "pairs", 12) for a in NAMES]
    jobs.append(((), 0, "all", 12))
    for exp in range(8):
        for first in range(256):
            jobs.append(("raw", first, exp, False))
    for exp in (0, 5):
        for first in sorted(set(INTERESTING)):
            jobs.append(("raw", first, exp, True))
    for exp in (0, 3):
        jobs.append(("ctrl", exp))

    def run(j):
        return raw_job(j[1:]) if j[0] == "raw" else ctrl_job(j[1:]) if j[0] == "ctrl" else token_job(j)

    streams = feeds = 0
    nontrivial = set()
    results = explore.pool().imap_unordered(_dispatch, jobs, chunksize=4) if explore.nworkers() > 1 else map(_dispatch, jobs)
    for s, f, viol, nt in results:
        streams += s
        feeds += f
        nontrivial |= nt
        for names, cuts, hexs, msg in viol:
            kind = msg.split(" ")[0]
            rep.add_violation(f"C02|stream|{'+'.join(str(x) for x in names)}|{kind}", f"stream {names} cuts {cuts}: {msg}",
                              {"world": "c02", "kind": "stream", "stream": hexs, "cuts": list(cuts)})
    lf = large_reads(rep)
    lf += inflight_streams(rep)
    mf = cf = 0
    cstates = commutation_states(2 if tier == "quick" else 3)
    side = [("mem", j) for j in memory_jobs(tier)] + [("com", st) for st in cstates]
    results = explore.pool().imap_unordered(_side, side, chunksize=2) if explore.nworkers() > 1 else map(_side, side)
    for kind, n, viol in results:
        if kind == "mem":
            mf += n
        else:
            cf += n
        for key, msg, rp in viol:
            rep.add_violation(key, msg, rp)
    cstates = len(cstates)
    if len(nontrivial) < 30:
        raise explore.InternalError(f"C02 vacuous: only {len(nontrivial)} distinct reference outcome shapes")
    rep.coverage = {
        "evaluations": feeds + lf + mf + cf,
        "distinct_nontrivial": len(nontrivial),
        "rule": f"all streams of <= {depth} tokens over a 32-token alphabet (6 reserved bytes, 4 escape complements, 1 ordinary byte, 10 frame bodies incl. bad CRC / bad escape / doubled escape without flag, 11 flag-terminated frames) "
                "x chunkings (all 2^(n-1) for n <= 12 bytes, else whole + bytewise + every single cut; thorough adds every pair of cuts); all 2-byte streams from each of the 8 expected-number states and 3-byte streams over 30 interesting values, all chunkings; "
                "RSTACK / ERROR with each of the 256 codes; large reads; memory matrix; local commutation step; non-trivial = distinct shape of the reference's event list (kinds of deliveries/ACK/NAK in order)",
        "token_streams": streams, "feeds": feeds, "valid_crc_control_byte_frames": 2 * 256 * 4 * 2, "reset_code_frames": 2 * 2 * 256 * 2, "large_read_cases": lf, "memory_reads": mf,
        "commutation_cases": cf, "commutation_states": cstates,
        "exhaustive": True,
        "samples": [{"stream": ["DATA0", "FLAG", "DATA1", "FLAG"], "bytes": (TOK["DATA0"] + b"\x7e" + TOK["DATA1"] + b"\x7e").hex()},
                    {"stream": ["BADESC", "FLAG"], "bytes": (TOK["BADESC"] + b"\x7e").hex()}],
    }
    rep.assumptions = ["reference decoder mc/env/ref_ash.py; data-field length limits of the spec (3..128) and a dangling escape before a flag are zones of latitude and are not generated",
                       "a rejected frame may be NAKed every time (bellows) or once per run (spec reject condition): 1..k NAKs accepted for a run of k rejected frames"]
    return rep.finish()


def _side(j):
    if j[0] == "mem":
        n, v = memory_job(j[1])
    else:
        n, v = commutation_job(j[1])
    return j[0], n, v


def _dispatch(j):
    return raw_job(j[1:]) if j[0] == "raw" else ctrl_job(j[1:]) if j[0] == "ctrl" else token_job(j)


def replay(data) -> int:
    if data.get("kind") == "stream":
        msg = run_stream(bytes.fromhex(data["stream"]), tuple(data["cuts"]))
        print(msg or "ok")
        return 1 if msg else 0
    rep = report.Report("C02", "quick", "exploration")
    large_reads(rep)
    for v in rep.violations:
        print(v.key, v.message)
    return 1 if rep.violations else 0
