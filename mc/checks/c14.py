"""C14 -- network settings survive a write / read round trip through the NCP.

Bounded exhaustive input enumeration with a stateful reference NCP: for every protocol version
4..14 x NCP capability (rewritable EUI64 token or not) x prior NCP state (blank / already restored
with the same backup / with another backup) x a structured family of network settings (one-at-a-
time and all pairs of: link keys 0/1/3, children 0/2 with and without NWK address, trust-centre
address known/unknown, hashed link key present/absent, frame counters 0 / 1 / 2^32-1, channel,
update id, key sequence, PAN ids, node IEEE same/different), the real
``ControllerApplication.write_network_info`` and ``load_network_info(load_devices=True)`` run
against the simulator (real EZSP, real version handler, resets and config writes inside) and the
read-back is compared field by field; the security state frame the NCP received is inspected.
"""
from __future__ import annotations

import itertools

from mc import explore, report
from mc.env import compat, ezspenv
from mc.env.ncp_net import ASSUMPTIONS, NetNcp
from mc.vloop import VLoop

WELL_KNOWN = b"ZigBeeAlliance09"
FIXED_RANDOM = bytes(range(0xA0, 0xB0))

DIMS = {
    "link_keys": [1, 0, 3],
    "children": ["none", "two-with-nwk", "two-one-without-nwk", "three-first-without-nwk"],   # a child without a known NWK address cannot be stored; the others must be
    "tc_known": [True, False, "unknown-copy"],   # unknown as zigpy's EUI64.UNKNOWN object itself / as an equal copy (what a JSON backup yields)
    "hashed": ["present", "absent"],
    "nwk_fc": [0x1234, 0, 1, 0xFFFFFFFF],
    "channel": [15, 11, 26],
    "update_id": [3, 0, 255],
    "key_seq": [2, 0, 255],
    "pan": [(0x1A2B, bytes(range(0x10, 0x18))), (0xFFFE, b"\xff" * 7 + b"\x01"), (0x0001, b"\x00" * 7 + b"\x01")],
    "ieee": ["other", "same"],
    "prior": ["blank", "same-backup", "other-backup", "stale-keys"],   # stale-keys: no network, but link keys left in the NCP's table (an earlier restore died after writing them)
    "burn": ["no", "allowed"],
    "key_fault": [None, 0, 1],     # the NCP refuses the k-th link-key write of the restore with a transient error (not "table full"): the other keys must still be stored     # the user's "burn the EUI64 into the manufacturing token once" switch (matters without the rewritable token)
}


class Gw(ezspenv.FakeGateway):
    on_reset = None

    async def reset(self):
        self.resets += 1
        if self.on_reset:
            self.on_reset()
        import asyncio

        await asyncio.sleep(0)


class Ctx:
    def __init__(self, version, rewritable):
        compat.install()
        import zigpy.config as zc

        import bellows.ezsp
        import bellows.zigbee.application as A
        from bellows.ezsp import v4

        self.version = version
        self.loop = VLoop().enter()
        from mc.env.ashworld import patch_time

        patch_time(self.loop)

        class _Os:
            @staticmethod
            def urandom(n):
                return FIXED_RANDOM[:n]

        A.os = _Os
        self.A = A
        self.app = A.ControllerApplication({zc.CONF_DEVICE: {zc.CONF_DEVICE_PATH: "/dev/ttyFAKE"}, zc.CONF_DATABASE: None})
        self.gw = Gw(self.loop)
        self.ezsp = bellows.ezsp.EZSP(dict(ezspenv.DEVICE_CONFIG))
        self.ezsp._gw = self.gw
        self.ezsp._protocol = v4.EZSPv4(self.ezsp.handle_callback, self.gw)
        self.ncp = NetNcp(version, lambda f: self.loop.call_soon(self.ezsp.frame_received, f), self.loop.time, rewritable_eui64=rewritable)
        self.gw.on_send = self.ncp.on_frame
        self.gw.on_reset = self.ncp.rebooted
        self.app._ezsp = self.ezsp
        self.run(self._boot())

    async def _boot(self):
        await self.ezsp.startup_reset()
        await self.ezsp.write_config({})

    def run(self, coro, horizon=600.0):
        task = self.loop.create_task(coro)
        self.loop.run_until_idle(horizon=self.loop.time() + horizon)
        if not task.done():
            task.cancel()
            self.loop.settle()
            return ("hang", None)
        if task.exception() is not None:
            return ("raise", task.exception())
        return ("ok", task.result())

    def close(self):
        import os as real_os

        self.A.os = real_os
        self.loop.shutdown()


def make_info(ctx, c, variant=0):
    """zigpy NetworkInfo / NodeInfo for one combination."""
    import zigpy.state as zs
    import zigpy.types as zt

    version = ctx.version
    x = variant  # a different backup differs in every key / address
    node_ieee = zt.EUI64(bytes([0x50 + x, 1, 2, 3, 4, 5, 6, 0x77])) if c["ieee"] == "other" else zt.EUI64(ctx.ncp.factory_eui64)
    tc_key = WELL_KNOWN if version > 4 else bytes([0x70 + x] * 16)
    keys = [zs.Key(key=zt.KeyData(bytes([0x20 + k + x] * 16)), partner_ieee=zt.EUI64(bytes([0x30 + k + x, 9, 8, 7, 6, 5, 4, 3]))) for k in range(c["link_keys"])]
    children, nwk_addresses = [], {}
    if c["children"] != "none":
        for k in range(3 if c["children"].startswith("three") else 2):
            e = zt.EUI64(bytes([0x40 + k + x, 1, 1, 1, 1, 1, 1, 1]))
            children.append(e)
            if not (c["children"] == "two-one-without-nwk" and k == 1) and not (c["children"] == "three-first-without-nwk" and k == 0):
                nwk_addresses[e] = zt.NWK(0x2000 + k + x)
    stack_specific = {}
    if c["hashed"] == "present":
        stack_specific = {"ezsp": {"hashed_tclk": bytes([0x90 + x] * 16).hex()}}
    if c.get("burn") == "allowed":
        stack_specific.setdefault("ezsp", {})["i_understand_i_can_update_eui64_only_once_and_i_still_want_to_do_it"] = True
    pan, epan = c["pan"]
    ni = zs.NetworkInfo(
        extended_pan_id=zt.ExtendedPanId(epan), pan_id=zt.PanId(pan ^ x), nwk_update_id=zt.uint8_t(c["update_id"]), nwk_manager_id=zt.NWK(0),
        channel=zt.uint8_t(c["channel"]), channel_mask=zt.Channels.from_channel_list([c["channel"], 20]), security_level=zt.uint8_t(5),
        network_key=zs.Key(key=zt.KeyData(bytes([0x60 + x] * 15 + [7])), tx_counter=zt.uint32_t(c["nwk_fc"] if x == 0 else 0x12300 + x), seq=zt.uint8_t(c["key_seq"])),
        tc_link_key=zs.Key(key=zt.KeyData(tc_key), tx_counter=zt.uint32_t(0x500 + x),
                           partner_ieee=node_ieee if c["tc_known"] is True else
                           (zt.EUI64.UNKNOWN if c["tc_known"] is False else zt.EUI64.convert("ff:ff:ff:ff:ff:ff:ff:ff"))),
        key_table=keys, children=children, nwk_addresses=nwk_addresses, stack_specific=stack_specific, metadata={}, source="verif",
    )
    no = zs.NodeInfo(nwk=zt.NWK(0), ieee=node_ieee, logical_type=__import__("zigpy.zdo.types", fromlist=["x"]).LogicalType.Coordinator)
    return ni, no


def one_case(version, rewritable, c):
    """Returns list of violation messages."""
    import copy

    import zigpy.types as zt

    ctx = Ctx(version, rewritable)
    out = []
    try:
        t = ctx.ncp.t
        if c["prior"] == "stale-keys":
            for i in range(3):
                ctx.ncp.key_table[i] = (bytes([0xE0 + i, 9, 9, 9, 9, 9, 9, 9]), bytes([0xD0 + i] * 16))
        elif c["prior"] != "blank":
            ni0, no0 = make_info(ctx, c, variant=0 if c["prior"] == "same-backup" else 5)
            r = ctx.run(ctx.app.write_network_info(network_info=ni0, node_info=no0))
            if r[0] != "ok":
                return [f"prior restore: write_network_info ended with {r[0]} {r[1]!r:.100}"]
        ni, no = make_info(ctx, c)
        want = copy.deepcopy(ni)
        want_ieee = zt.EUI64(no.ieee)
        supplied_tc_known = c["tc_known"] is True
        n_sec = len(ctx.ncp.security_frames)
        ctx.ncp.key_writes = 0
        ctx.ncp.refuse_key_write = c.get("key_fault")
        r = ctx.run(ctx.app.write_network_info(network_info=ni, node_info=no))
        ctx.ncp.refuse_key_write = None
        if r[0] != "ok":
            return [f"write_network_info ended with {r[0]} {r[1]!r:.120}"]
        r = ctx.run(ctx.app.load_network_info(load_devices=True))
        if r[0] != "ok":
            return [f"load_network_info ended with {r[0]} {r[1]!r:.120}"]
        got = ctx.app.state.network_info
        gno = ctx.app.state.node_info
        for f in ("pan_id", "extended_pan_id", "channel", "channel_mask", "nwk_update_id"):
            if getattr(got, f) != getattr(want, f):
                out.append(f"{f}: read back {getattr(got, f)!r}, written {getattr(want, f)!r}")
        if got.network_key.key != want.network_key.key:
            out.append(f"network key: read back {got.network_key.key}, written {want.network_key.key}")
        if int(got.network_key.seq) != int(want.network_key.seq):
            out.append(f"network key sequence: read back {got.network_key.seq}, written {want.network_key.seq}")
        if version >= 5 and int(got.network_key.tx_counter) != int(want.network_key.tx_counter):
            out.append(f"network key frame counter: read back {got.network_key.tx_counter}, written {want.network_key.tx_counter}")
        if version > 4:
            exp_hashed = want.stack_specific.get("ezsp", {}).get("hashed_tclk")
            got_hashed = got.stack_specific.get("ezsp", {}).get("hashed_tclk")
            if exp_hashed is None:
                # none supplied: bellows generates one; which one is its business, but the one sent to the NCP in the security
                # state must be the one read back (and a full 16-byte key)
                sec = ctx.ncp.security_frames[n_sec:]
                exp_hashed = bytes(sec[0].preconfiguredKey.serialize()).hex() if len(sec) == 1 else None
                if exp_hashed is None or len(exp_hashed) != 32:
                    out.append("no 16-byte hashed trust-centre link key was generated for the security state")
                    exp_hashed = "00" * 16
            if got_hashed != exp_hashed:
                out.append(f"hashed trust-centre link key: read back {got_hashed}, written {exp_hashed}")
            if bytes(got.tc_link_key.key.serialize()) != WELL_KNOWN:
                out.append(f"trust-centre link key: read back {got.tc_link_key.key}, expected the well-known key")
        else:
            if got.tc_link_key.key != want.tc_link_key.key:
                out.append(f"trust-centre link key: read back {got.tc_link_key.key}, written {want.tc_link_key.key}")
            if got.stack_specific.get("ezsp", {}).get("hashed_tclk"):
                out.append("a hashed trust-centre link key was read back on a version that does not hash it")
        gk = sorted((bytes(k.key.serialize()), bytes(k.partner_ieee.serialize())) for k in got.key_table)
        wk = sorted((bytes(k.key.serialize()), bytes(k.partner_ieee.serialize())) for i, k in enumerate(want.key_table) if i != c.get("key_fault"))
        if gk != wk:
            out.append(f"link-key table: read back {len(gk)} entries {[(a.hex()[:6], b.hex()) for a, b in gk]}, written {len(wk)} {[(a.hex()[:6], b.hex()) for a, b in wk]}")
        if version >= 9:
            wc = {bytes(e.serialize()): int(want.nwk_addresses[e]) for e in want.children if e in want.nwk_addresses}
            gc = {bytes(e.serialize()): int(got.nwk_addresses.get(e, -1)) for e in got.children}
            if gc != wc:
                out.append(f"child table: read back {gc}, written {wc}")
        # EUI64: where the NCP can take it (rewritable token) or it already matches
        # ... or burn it once into the manufacturing token when the user allowed that and it is still blank
        burned_before = c["prior"] not in ("blank", "stale-keys") and c.get("burn") == "allowed" and not ctx.ncp.rewritable and c["ieee"] == "other"
        can_burn = c.get("burn") == "allowed" and not ctx.ncp.rewritable and (not burned_before or c["prior"] == "same-backup")
        can_write = ctx.ncp.rewritable or c["ieee"] == "same" or can_burn
        if can_write and gno.ieee != want_ieee:
            out.append(f"node IEEE: read back {gno.ieee}, written {want_ieee}")
        if got.tc_link_key.partner_ieee != gno.ieee:
            out.append(f"trust-centre link key partner {got.tc_link_key.partner_ieee} differs from the coordinator's own IEEE {gno.ieee}")
        # security state frame
        frames = ctx.ncp.security_frames[n_sec:]
        if len(frames) != 1:
            out.append(f"{len(frames)} initial-security-state frames sent, expected 1")
        else:
            s = frames[0]
            B = t.EmberInitialSecurityBitmask
            if s.networkKey != want.network_key.key or int(s.networkKeySequenceNumber) != int(want.network_key.seq):
                out.append("security state carries a different network key / sequence number than supplied")
            exp_pre = bytes.fromhex(exp_hashed) if version > 4 else bytes(want.tc_link_key.key.serialize())
            if bytes(s.preconfiguredKey.serialize()) != exp_pre:
                out.append(f"security state preconfigured key {bytes(s.preconfiguredKey.serialize()).hex()}, expected {exp_pre.hex()}")
            for flag in (B.HAVE_PRECONFIGURED_KEY, B.HAVE_NETWORK_KEY):
                if flag not in s.bitmask:
                    out.append(f"security state lacks {flag.name}")
            hashed_flag = (int(s.bitmask) & 0x0084) == 0x0084
            if hashed_flag != (version > 4):
                out.append(f"security state hashed-link-key flag is {hashed_flag} on EZSP v{version}")
            have_tc = B.HAVE_TRUST_CENTER_EUI64 in s.bitmask
            if supplied_tc_known and not have_tc:
                out.append("trust-centre address was supplied but HAVE_TRUST_CENTER_EUI64 is not set")
            if have_tc and bytes(s.preconfiguredTrustCenterEui64.serialize()) != ctx.ncp.eui64_at_form:
                out.append(f"security state names trust centre {s.preconfiguredTrustCenterEui64}, the coordinator's EUI64 when the network was formed is "
                           f"{zt.EUI64(ctx.ncp.eui64_at_form)}")
            if not have_tc and supplied_tc_known:
                pass
    finally:
        ctx.close()
    return out


def combos(tier):
    base = {k: v[0] for k, v in DIMS.items()}
    seen = set()

    def emit(c):
        key = repr(sorted(c.items()))
        if key not in seen:
            seen.add(key)
            return True
        return False

    names = list(DIMS)
    if emit(base):
        yield dict(base)
    for n in names:
        for v in DIMS[n][1:]:
            c = dict(base)
            c[n] = v
            if emit(c):
                yield c
    pair_names = names if tier != "quick" else ["link_keys", "children", "tc_known", "hashed", "ieee", "prior", "nwk_fc", "burn", "key_fault"]
    for a, b in itertools.combinations(pair_names, 2):
        for va in DIMS[a][1:]:
            for vb in DIMS[b][1:]:
                c = dict(base)
                c[a], c[b] = va, vb
                if emit(c):
                    yield c


def history_job(args):
    """Reads on a used application: (1) two ``load_network_info`` calls in flight together, the second started while the first is
    suspended on its k-th command; (2) a read during which the NCP refuses the j-th key export with a transient failure (that read
    may fail), followed by an ordinary read.  The settings read back at the end must be those of an undisturbed read."""
    version, rewritable, tier = args
    import copy
    import logging

    logging.disable(logging.CRITICAL)
    viol = []
    n = 0
    c = {k: v[0] for k, v in DIMS.items()}
    c["link_keys"], c["children"] = 3, "two-with-nwk"

    def snapshot(app):
        return copy.deepcopy((app.state.network_info, app.state.node_info))

    def prepared(read=True):
        ctx = Ctx(version, rewritable)
        ni, no = make_info(ctx, c)
        for coro in (ctx.app.write_network_info(network_info=ni, node_info=no),) + ((ctx.app.load_network_info(load_devices=True),) if read else ()):
            r = ctx.run(coro)
            if r[0] != "ok":
                ctx.close()
                return None, f"{r[0]} {r[1]!r:.100}"
        return ctx, snapshot(ctx.app)

    def differences(a, b):
        out = []
        for obj_a, obj_b, what in ((a[0], b[0], "network_info"), (a[1], b[1], "node_info")):
            da, db = obj_a.as_dict(), obj_b.as_dict()
            # tables are compared as sets: two reads in flight together both append to the same table objects on the pinned tree
            # (duplicated entries, which the property's sequential quantifier does not cover); a wrong or missing entry still shows
            for dd in (da, db):
                for k, v in list(dd.items()):
                    if isinstance(v, list):
                        dd[k] = sorted({repr(x) for x in v})
            for k in da:
                if da[k] != db.get(k):
                    out.append(f"{what}.{k}: {da[k]!r:.90} instead of {db.get(k)!r:.90}")
        return out

    # (1) overlapping reads
    for k in (range(1, 31) if tier != "quick" else (1, 2, 3, 4, 5, 6, 8, 11, 15, 22)):
        ctx, ref = prepared()
        if ctx is None:
            return n, [(f"C14|history|setup", f"v{version}: settings round trip for the history cases ended with {ref}", {"version": version, "rewritable": rewritable, "history": "setup"})]
        n += 1
        try:
            held = []
            ctx.ncp.submit = held.append
            t1 = ctx.loop.create_task(ctx.app.load_network_info(load_devices=True))
            ctx.loop.settle()
            for _ in range(k):
                if held:
                    ctx.ezsp.frame_received(held.pop(0))
                    ctx.loop.settle()
            t2 = ctx.loop.create_task(ctx.app.load_network_info(load_devices=True))
            ctx.loop.settle()
            steps = 0
            while not (t1.done() and t2.done()) and steps < 5000:
                steps += 1
                if held:
                    ctx.ezsp.frame_received(held.pop(0))
                    ctx.loop.settle()
                else:
                    ctx.loop.advance(0.5)
                    if not held and not (t1.done() and t2.done()):
                        break
            bad = [t for t in (t1, t2) if not t.done() or t.cancelled() or t.exception() is not None]
            msg = None
            if bad:
                msg = f"one of them ended with {bad[0].exception()!r:.100}" if bad[0].done() and not bad[0].cancelled() else "one of them did not finish"
            else:
                d = differences(snapshot(ctx.app), ref)
                if d:
                    msg = "; ".join(d[:3])
            if msg:
                viol.append((f"C14|history|overlapping-reads|{msg.split(':')[0][:40]}", f"v{version}: two load_network_info() calls in flight together (the second started while the first was on its "
                             f"command #{k}): {msg}", {"version": version, "rewritable": rewritable, "history": "overlap", "k": k}))
            for t in (t1, t2):
                if not t.done():
                    t.cancel()
            ctx.loop.settle()
        finally:
            ctx.close()
        if viol:
            break
    # (2) a read with one refused key export, then an ordinary read
    ctx0, ref = prepared()
    if ctx0 is not None:
        ctx0.close()
    for j in range(4):
        # (the faulty read is the first one after the write: nothing the library may have remembered from a good read helps it)
        ctx, _ = prepared(read=False)
        if ctx is None or ctx0 is None:
            break
        n += 1
        try:
            ctx.ncp.key_reads = 0
            ctx.ncp.refuse_key_read = j
            ctx.run(ctx.app.load_network_info(load_devices=True))          # may fail: the NCP refused a key export
            ctx.ncp.refuse_key_read = None
            r = ctx.run(ctx.app.load_network_info(load_devices=True))
            msg = None
            if r[0] != "ok":
                msg = f"it ended with {r[0]} {r[1]!r:.100}"
            else:
                d = differences(snapshot(ctx.app), ref)
                if d:
                    msg = "; ".join(d[:3])
            if msg:
                viol.append((f"C14|history|read-after-failed-read|{msg.split(':')[0][:40]}", f"v{version}: an ordinary load_network_info() after one during which the NCP refused key export #{j + 1}: {msg}",
                             {"version": version, "rewritable": rewritable, "history": "failed-read", "j": j}))
        finally:
            ctx.close()
    return n, viol


def job(args):
    version, rewritable, tier = args
    import logging

    logging.disable(logging.CRITICAL)
    viol = []
    n = 0
    sigs = set()
    for c in combos(tier):
        n += 1
        msgs = one_case(version, rewritable, c)
        sigs.add((c["link_keys"], c["children"], c["prior"], c["ieee"], c["tc_known"], c["hashed"], bool(msgs)))
        for m in msgs:
            import re

            rule = re.sub(r"[0-9a-f]{2}(:[0-9a-f]{2}){7}|0x[0-9a-fA-F]+|\b[0-9a-f]{8,}\b|\d+", "#", m.split(":")[0] if ":" in m[:40] else m)[:70]
            cls = "v4" if version == 4 else ("v5-8" if version < 9 else ("v9-12" if version < 13 else f"v{version}"))
            viol.append((f"C14|{cls}|{rule}", f"v{version} rewritable={rewritable} {c}: {m}",
                         {"world": "c14", "version": version, "rewritable": rewritable, "case": {k: (list(v) if isinstance(v, tuple) else v) for k, v in c.items()}}))
    return version, rewritable, n, len(sigs), viol


def main(tier: str) -> int:
    rep = report.Report("C14", tier, "exploration")
    jobs = [(v, rw, tier) for v in ezspenv.VERSIONS for rw in ((True, False) if v >= 9 else (False,))]
    results = sorted(explore.pool().imap_unordered(job, jobs, chunksize=1), key=lambda r: (r[0], r[1]))
    total = sigs = 0
    for version, rw, n, s, viol in results:
        total += n
        sigs += s
        for key, msg, rp in viol:
            rep.add_violation(key, msg, rp)
    n_hist = 0
    for nh, viol in explore.pool().imap_unordered(history_job, [(v, v >= 9, tier) for v in ezspenv.VERSIONS], chunksize=1):
        n_hist += nh
        for key, msg, rp in viol:
            rep.add_violation(key, msg, {"world": "c14", **rp})
    total += n_hist
    if total < 1000 or sigs < 50:
        raise explore.InternalError(f"C14 vacuous: {total} cases, {sigs} signatures")
    rep.coverage = {
        "evaluations": total,
        "distinct_nontrivial": sigs,
        "versions": ezspenv.VERSIONS,
        "exhaustive": True,
        "dimensions": {k: [str(x) for x in v] for k, v in DIMS.items()},
        "rule": "per (version, rewritable-EUI64 capability): base case, every single dimension value, and all pairs over "
                + ("all dimensions" if tier != "quick" else "{link keys, children, TC address, hashed key, node IEEE, prior NCP state, frame counter}")
                + "; every case = real write_network_info then load_network_info(load_devices=True) against the stateful simulator; distinct = distinct structural signature",
        "samples": [{"version": 13, "rewritable": True, "case": {k: str(v[0]) for k, v in DIMS.items()}}],
    }
    rep.assumptions = list(ASSUMPTIONS) + [
        "for EZSP v5+ the written trust-centre link key is the well-known key (bellows supports only that one when hashing is used); os.urandom is replaced by a fixed value",
        "ControllerApplication constructed with zigpy.util.Requests back-filled; FakeGateway resets reboot the simulated NCP (non-volatile state kept)",
    ]
    return rep.finish()


def replay(data) -> int:
    if data.get("history"):
        n, viol = history_job((data["version"], data["rewritable"], "thorough"))
        for v in viol:
            print("VIOLATION:", v[1])
        return 1 if viol else 0
    c = {k: (tuple(v) if isinstance(v, list) else v) for k, v in data["case"].items()}
    if isinstance(c.get("pan"), tuple) and isinstance(c["pan"][1], str):
        c["pan"] = (c["pan"][0], eval(c["pan"][1]))
    msgs = one_case(data["version"], data["rewritable"], c)
    for m in msgs:
        print("VIOLATION:", m)
    return 1 if msgs else 0
