"""C08 -- malformed or unexpected EZSP frames are contained.

Bounded exhaustive input enumeration through the real ``EZSP.frame_received`` with the real
handler of every version, two registered callbacks and (optionally) one real pending command:
every response/callback schema of the version (one generated value tuple each) x {truncation
at every length, each byte XOR 01/80/FF, sequence byte = pending / pending+-1, frame ID replaced
by other IDs}; all byte strings of length <= 2 and all strings of length 3..6 over a 6-symbol
alphabet.  A lenient reference decoder (header layout + schema walk) says which frames decode.
"""
from __future__ import annotations

import asyncio
import inspect
import itertools

from mc import explore, report, gen_values as gv
from mc.env import ezspenv
from mc.vloop import VLoop

PENDING = [None, "getEui64", "getValue", "nop", "getConfigurationValue"]


def ref_decode(cls, version, data):
    """Lenient reference: (seq, frame_id, name, values, rest) if the frame has a complete header,
    a frame ID known to this version and a payload that decodes through the declared schema; else None."""
    lay = ezspenv.layout(version)
    if lay == "v4":
        if len(data) < 3:
            return None
        seq, fid, payload = data[0], data[2], data[3:]
    else:
        if len(data) < 5:
            return None
        seq = data[0]
        fid = data[4] if lay == "v5" else data[3] | (data[4] << 8)
        payload = data[5:]
    ent = cls._by_id.get(fid)
    if ent is None:
        return (seq, fid, None, None, None)
    name, rx = ent
    try:
        if isinstance(rx, dict):
            vals = []
            rest = payload
            for ty in rx.values():
                v, rest = ty.deserialize(rest)
                vals.append(v)
        else:
            v, rest = rx.deserialize(payload)
            vals = v
    except Exception:
        return (seq, fid, name, None, None)
    return (seq, fid, name, vals, rest)


class Ctx:
    def __init__(self, version, pending):
        self.version = version
        self.loop = VLoop().enter()
        self.ezsp, self.gw = ezspenv.make_ezsp(self.loop, version)
        self.h = self.ezsp._protocol
        self.cls = type(self.h)
        if not hasattr(self.cls, "_by_id") or self.cls.__dict__.get("_by_id_for") is not self.cls:
            self.cls._by_id = {cid: (name, rx) for name, (cid, tx, rx) in self.cls.COMMANDS.items()}
            self.cls._by_id_for = self.cls
        self.cb1, self.cb2 = [], []
        self.ezsp.add_callback(lambda n, a: self.cb1.append((n, a)))
        self.ezsp.add_callback(lambda n, a: self.cb2.append((n, a)))
        self.pending_name = pending
        self.task = None
        self.pseq = None
        self.pid = None
        self.nseq = 0
        if pending:
            self.issue()

    def issue(self):
        name = self.pending_name
        cid, tx, rx = self.cls.COMMANDS[name]
        args = [gv.one(ty, "mid") for ty in tx.values()] if isinstance(tx, dict) else []
        self.task = self.loop.create_task(self.ezsp._command(name, *args))
        self.loop.settle()
        self.pseq = self.nseq
        self.nseq = (self.nseq + 1) % 256
        self.pid = cid
        self.prx = rx

    def still_registered(self):
        aw = getattr(self.h, "_awaiting", None)
        if aw is None:
            return False
        return self.pseq in aw

    def feed(self, data):
        """Feed one frame; return violation message or None."""
        self.cb1.clear()
        self.cb2.clear()
        ref = ref_decode(self.cls, self.version, data)
        try:
            self.ezsp.frame_received(data)
        except BaseException as e:  # noqa
            return f"raised: frame_received raised {type(e).__name__}: {e}"
        self.loop.settle()
        msg = None
        if len(self.cb1) != len(self.cb2):
            msg = f"callbacks: the two registered callbacks were invoked {len(self.cb1)} and {len(self.cb2)} times"
        elif len(self.cb1) > 1:
            msg = f"callbacks: {len(self.cb1)} invocations for one frame"
        elif len(self.cb1) == 1:
            n, a = self.cb1[0]
            if ref is None or ref[3] is None:
                why = "has no complete header" if ref is None else ("has an unknown frame ID" if ref[2] is None else "does not decode through its schema")
                msg = f"callbacks: callback {n} invoked for a frame that {why}"
            elif n != ref[2] or not same(a, ref[3]):
                msg = f"callbacks: invoked with ({n}, {a!r:.80}), the frame decodes as ({ref[2]}, {ref[3]!r:.80})"
        if self.task is not None and self.task.done():
            t = self.task
            own = ref is not None and ref[0] == self.pseq
            if t.cancelled():
                msg = msg or "pending: the pending call was cancelled by a received frame"
            elif t.exception() is not None:
                # only the NCP's invalidCommand answer under the call's own sequence number may fail it
                if not (own and ref[2] == "invalidCommand" and ref[3] is not None):
                    msg = msg or f"pending: the pending call raised {type(t.exception()).__name__} on an unrelated frame"
            else:
                res = t.result()
                if not (own and ref[1] == self.pid and ref[3] is not None):
                    why = "another sequence number" if not own else ("another frame ID" if ref[1] != self.pid else "an undecodable payload")
                    msg = msg or f"pending: the pending {self.pending_name} call was completed by a frame with {why}"
                elif not same(res, ref[3]):
                    msg = msg or f"pending: completed with {res!r:.80}, the frame decodes as {ref[3]!r:.80}"
            self.task = None
        if self.pending_name and (self.task is None or not self.still_registered()):
            if self.task is not None and not self.task.done():
                self.task.cancel()
                self.loop.settle()
            self.issue()
        return msg

    def fresh_ok(self):
        """A command issued now and answered properly completes normally."""
        name = "getNodeId"
        cid, tx, rx = self.cls.COMMANDS[name]
        # finish the pending one first (one command in flight at a time)
        if self.task is not None:
            self.task.cancel()
            self.loop.settle()
            self.task = None
        task = self.loop.create_task(self.ezsp._command(name))
        self.loop.settle()
        seq = self.nseq
        self.nseq = (self.nseq + 1) % 256
        frame = ezspenv.enc_response_hdr(self.version, seq, cid) + bytes([0x34, 0x12])
        try:
            self.ezsp.frame_received(frame)
        except BaseException as e:  # noqa
            return f"afterwards: frame_received raised {type(e).__name__} on a valid reply"
        self.loop.settle()
        ok = task.done() and not task.cancelled() and task.exception() is None and list(task.result()) == [0x1234]
        if not task.done():
            task.cancel()
            self.loop.settle()
        if self.pending_name:
            self.issue()
        return None if ok else "afterwards: a command issued after the malformed frames did not complete normally on its own reply"

    def close(self):
        if self.task is not None:
            self.task.cancel()
        self.loop.shutdown()


def same(a, b):
    try:
        if isinstance(b, list):
            return list(a) == b and all(type(x).serialize(x) == type(y).serialize(y) if hasattr(type(y), "serialize") else True for x, y in zip(a, b))
        return a == b
    except Exception:
        return False


def mutations(version, frame, pseq, id_pool):
    hl = ezspenv.hdr_len(version)
    yield ("orig", frame)
    for n in range(len(frame)):
        yield (f"trunc{n}", frame[:n])
    for i in range(len(frame)):
        for x in (0x01, 0x80, 0xFF):
            yield (f"flip{i}^{x:02x}", frame[:i] + bytes([frame[i] ^ x]) + frame[i + 1:])
    if pseq is not None:
        for d in (0, 1, -1):
            # the pending sequence number is read when the frame is fed (the call may have been re-issued)
            yield (f"seq=pending{d:+d}", lambda cur, d=d: bytes([(cur + d) % 256]) + frame[1:])
    for fid in id_pool:
        if ezspenv.layout(version) == "v4":
            if fid < 256:
                yield (f"id={fid:#x}", frame[:2] + bytes([fid]) + frame[3:])
        elif ezspenv.layout(version) == "v5":
            if fid < 256:
                yield (f"id={fid:#x}", frame[:4] + bytes([fid]) + frame[5:])
        else:
            yield (f"id={fid:#x}", frame[:3] + bytes([fid & 0xFF, fid >> 8]) + frame[5:])


def run_job(args):
    version, pending, tier = args
    import logging

    logging.disable(logging.CRITICAL)
    cls = ezspenv.handler_class(version)
    viol = []
    stats = {"frames": 0, "decodable": 0, "callbacks": 0, "completions": 0, "base_frames": 0, "fresh_checks": 0, "sample": None}
    if pending and pending not in cls.COMMANDS:
        return version, pending, viol, stats
    ids = sorted({cid for _, (cid, _, _) in cls.COMMANDS.items()})
    if tier == "quick":
        id_pool = sorted(set(ids[:6] + ids[-6:] + [0x00, 0x02, 0x58, 0x7F, 0x80, 0xFE, 0xFF, 0x100, 0x11F, 0x120, 0x3F, 0x45]))
    else:
        id_pool = list(range(0, 0x121))
    ctx = Ctx(version, pending)

    def note(kind, label, data, msg, base=None):
        rule = msg.split(":")[0]
        import re

        detail = re.sub(r"callback \S+ invoked", "callback invoked", msg.split(":", 1)[1].strip())
        detail = re.sub(r"0x[0-9a-fA-F]+|\d+", "#", detail)[:60]
        key = f"C08|{rule}|{kind}|{'pending' if pending else 'idle'}|{detail}"
        viol.append((key, f"v{version} pending={pending} {kind} {label}: {msg}  frame={data.hex()[:80]}",
                     {"version": version, "pending": pending, "frames": [data.hex()], "label": label, "base": base}))

    try:
        # family 1: mutations of every rx schema
        for name, (cid, tx, rx) in cls.COMMANDS.items():
            try:
                if isinstance(rx, dict):
                    vals = [gv.one(ty, "mid") for ty in rx.values()]
                elif inspect.isclass(rx):
                    vals = [gv.one(rx, "mid")]
                else:
                    continue
                payload = ezspenv.encode_values(rx, vals)
            except Exception:
                continue
            stats["base_frames"] += 1
            pseq = ctx.pseq if pending else None
            base = ezspenv.enc_response_hdr(version, 200 if not pending else (ctx.pseq + 57) % 256, cid) + payload
            batch = []
            for label, data in mutations(version, base, pseq, id_pool):
                if callable(data):
                    data = data(ctx.pseq)
                stats["frames"] += 1
                msg = ctx.feed(data)
                if ctx.cb1:
                    stats["callbacks"] += 1
                if msg:
                    note("mutation", f"{name}/{label}", data, msg, base.hex())
                batch.append(data)
            m = ctx.fresh_ok()
            stats["fresh_checks"] += 1
            if m:
                note("mutation", f"{name}/*", base, m, base.hex())
                ctx.close()
                ctx = Ctx(version, pending)
            if stats["sample"] is None:
                stats["sample"] = {"version": version, "pending": pending, "base": base.hex(), "name": name}
        # family 2: raw strings
        if pending in (None, "getEui64"):
            alpha = [0x00, 0x01, 0x7F, 0x80, 0xFF, None]
            def sym(x):
                return (ctx.pseq if ctx.pseq is not None else 0x02) if x is None else x
            gens = [itertools.product(range(256), repeat=n) for n in (0, 1, 2)]
            gens += [itertools.product(alpha, repeat=n) for n in ((3, 4, 5, 6) if tier != "quick" else (3, 4, 5))]
            k = 0
            for gen in gens:
                for tup in gen:
                    data = bytes(sym(x) for x in tup)
                    stats["frames"] += 1
                    msg = ctx.feed(data)
                    if ctx.cb1:
                        stats["callbacks"] += 1
                    if msg:
                        note("raw", f"len{len(data)}", data, msg)
                    k += 1
                    if k % 4096 == 0:
                        m = ctx.fresh_ok()
                        stats["fresh_checks"] += 1
                        if m:
                            note("raw", "*", data, m)
                            ctx.close()
                            ctx = Ctx(version, pending)
            m = ctx.fresh_ok()
            if m:
                note("raw", "*", b"", m)
    finally:
        ctx.close()
    return version, pending, viol, stats


def queued_behind_orphan(version):
    """A decodable frame with the pending command's sequence number but another frame ID abandons that command; a command
    issued right afterwards has to wait for the abandoned one to time out, is then sent, and must complete normally on its own
    reply.  (Its own time limit may only start once it has been sent.)"""
    ctx = Ctx(version, "getEui64")
    try:
        cid_other = ctx.cls.COMMANDS["getNodeId"][0]
        ctx.ezsp.frame_received(ezspenv.enc_response_hdr(version, ctx.pseq, cid_other) + bytes([0x11, 0x22]))
        ctx.loop.settle()
        n_sent = len(ctx.gw.sent)
        task_b = ctx.loop.create_task(ctx.ezsp._command("getNodeId"))
        ctx.loop.settle()
        for _ in range(8):
            if len(ctx.gw.sent) > n_sent or task_b.done():
                break
            ctx.loop.fire_timers()
            ctx.loop.settle()
        if task_b.done():
            res = "cancelled" if task_b.cancelled() else repr(task_b.exception() or task_b.result())
            return f"afterwards: a command issued while an abandoned command still held the send slot ended ({res}) before it was ever sent"
        if len(ctx.gw.sent) <= n_sent:
            return "afterwards: a command issued behind an abandoned command was never sent"
        seq = ctx.gw.sent[-1][1][0]
        ctx.ezsp.frame_received(ezspenv.enc_response_hdr(version, seq, cid_other) + bytes([0x34, 0x12]))
        ctx.loop.settle()
        ok = task_b.done() and not task_b.cancelled() and task_b.exception() is None and list(task_b.result()) == [0x1234]
        if not task_b.done():
            task_b.cancel()
            ctx.loop.settle()
        return None if ok else "afterwards: a command issued behind an abandoned command did not complete normally on its own reply"
    finally:
        ctx.close()


def isolation_cases(rep):
    """A pending command belongs to one protocol handler: a frame given to *another* EZSP object in the same process, or to the
    handler that replaced it after a version switch, never completes it -- whatever sequence number and frame ID it carries
    (state shared between handler instances, e.g. a class-level table, would show here and nowhere else)."""
    n = 0
    for va in ezspenv.VERSIONS:
        for vb in sorted({4, 8, 13, 14, va}):
            for mode in ("other-instance", "replaced-handler"):
                n += 1
                loop = VLoop().enter()
                try:
                    a, _ = ezspenv.make_ezsp(loop, va)
                    cls_a = type(a._protocol)
                    task = loop.create_task(a._command("getNodeId"))
                    loop.settle()
                    got_b = []
                    if mode == "other-instance":
                        b, _ = ezspenv.make_ezsp(loop, vb)
                    else:
                        b = a
                        a._switch_protocol_version(vb)
                    b.add_callback(lambda nme, args: got_b.append(nme))
                    cls_b = type(b._protocol)
                    key = f"C08|isolation|{mode}"
                    for name in ("getNodeId", "getEui64", "nop"):
                        cid = cls_b.COMMANDS[name][0]
                        payload = {"getNodeId": bytes([0x34, 0x12]), "getEui64": bytes(range(8)), "nop": b""}[name]
                        try:
                            b.frame_received(ezspenv.enc_response_hdr(vb, 0, cid) + payload)
                        except BaseException as e:  # noqa
                            rep.add_violation(key + "|raised", f"v{va} pending getNodeId, {mode} v{vb}: frame_received raised {type(e).__name__}: {e}",
                                              {"world": "c08", "kind": "isolation", "va": va, "vb": vb, "mode": mode})
                        loop.settle()
                        if task.done():
                            res = "cancelled" if task.cancelled() else (repr(task.exception()) if task.exception() else repr(task.result()))
                            rep.add_violation(key, f"a getNodeId call pending on an EZSP v{va} handler was ended ({res}) by a {name} frame given to "
                                              f"{'another EZSP object' if mode == 'other-instance' else 'the handler that replaced it'} (v{vb})",
                                              {"world": "c08", "kind": "isolation", "va": va, "vb": vb, "mode": mode})
                            break
                    if mode == "other-instance" and not task.done():
                        # ... and its own reply still completes it
                        a.frame_received(ezspenv.enc_response_hdr(va, 0, cls_a.COMMANDS["getNodeId"][0]) + bytes([0x78, 0x56]))
                        loop.settle()
                        if not (task.done() and not task.cancelled() and task.exception() is None and list(task.result()) == [0x5678]):
                            rep.add_violation(key + "|own-reply", f"v{va}: the pending getNodeId call did not complete on its own reply after frames were given to another EZSP object",
                                              {"world": "c08", "kind": "isolation", "va": va, "vb": vb, "mode": mode})
                    if not task.done():
                        task.cancel()
                        loop.settle()
                finally:
                    loop.shutdown()
    return n


def cancelled_waiter_cases(rep):
    """The caller of the pending command has just been cancelled (or its time-out has just fired) but has not run again yet;
    in that very loop iteration a frame with the command's sequence number is read -- its reply, an invalidCommand answer, a
    foreign frame ID, a truncated reply.  The receive entry point must not raise (a CancelledError is a BaseException and passes
    an ``except Exception``); commands issued afterwards still complete."""
    n = 0
    for v in ezspenv.VERSIONS:
        for how in ("cancel", "timeout"):
            for kind in ("reply", "invalid", "foreign-id", "truncated"):
                n += 1
                ctx = Ctx(v, "getEui64")
                try:
                    if how == "cancel":
                        ctx.task.cancel()
                    else:
                        dl = ctx.loop.next_deadline()
                        if dl is None:
                            continue
                        ctx.loop._vtime = max(ctx.loop._vtime, dl)
                        ctx.loop.fire_timers()          # the time-out callback has run, the waiter has not resumed yet
                    cid = ctx.cls.COMMANDS["getEui64"][0]
                    frame = {"reply": ezspenv.enc_response_hdr(v, ctx.pseq, cid) + bytes(range(8)),
                             "invalid": ezspenv.enc_response_hdr(v, ctx.pseq, 0x58) + b"\x36",
                             "foreign-id": ezspenv.enc_response_hdr(v, ctx.pseq, ctx.cls.COMMANDS["getNodeId"][0]) + b"\x34\x12",
                             "truncated": ezspenv.enc_response_hdr(v, ctx.pseq, cid) + bytes(range(3))}[kind]
                    rp = {"world": "c08", "kind": "cancelled-waiter", "version": v, "how": how, "frame": kind}
                    try:
                        ctx.ezsp.frame_received(frame)
                    except BaseException as e:  # noqa
                        rep.add_violation("C08|cancelled-waiter|raised", f"v{v}: the pending command's caller was just {'cancelled' if how == 'cancel' else 'timed out'} (not yet resumed) "
                                          f"and a {kind} frame with its sequence number arrived: frame_received raised {type(e).__name__}: {e}", rp)
                    try:
                        ctx.loop.settle()
                    except BaseException as e:  # noqa
                        rep.add_violation("C08|cancelled-waiter|loop", f"v{v}: {how} + {kind}: the loop raised {type(e).__name__}: {e}", rp)
                    # a command issued afterwards completes normally
                    n_sent = len(ctx.gw.sent)
                    t2 = ctx.loop.create_task(ctx.ezsp._command("getNodeId"))
                    ctx.loop.settle()
                    ok = False
                    if len(ctx.gw.sent) == n_sent + 1:
                        seq = ctx.gw.sent[-1][1][0]
                        ctx.ezsp.frame_received(ezspenv.enc_response_hdr(v, seq, ctx.cls.COMMANDS["getNodeId"][0]) + b"\x78\x56")
                        ctx.loop.settle()
                        ok = t2.done() and not t2.cancelled() and t2.exception() is None and list(t2.result()) == [0x5678]
                    if not ok:
                        rep.add_violation("C08|cancelled-waiter|afterwards", f"v{v}: {how} + {kind}: a command issued afterwards did not complete normally", rp)
                    if not t2.done():
                        t2.cancel()
                        ctx.loop.settle()
                finally:
                    ctx.close()
    return n


def cross_version_history_cases(rep):
    """Frames that are unknown (or undecodable) for the legacy handler of a fresh connection are contained there; after the
    negotiation to version N on the same EZSP object -- and on another EZSP object of version N in the same process -- the commands
    that own those frame IDs in version N still complete normally on their replies."""
    n = 0
    for v in ezspenv.VERSIONS:
        if v == 4:
            continue
        cls_n = ezspenv.handler_class(v)
        cls_4 = ezspenv.handler_class(4)
        ids4 = {cid for cid, _, _ in cls_4.COMMANDS.values()}
        fresh = [(name, cid, tx, rx) for name, (cid, tx, rx) in cls_n.COMMANDS.items()
                 if cid not in ids4 and cid <= 0xFF and isinstance(tx, dict) and not tx and isinstance(rx, dict)][:6]
        if not fresh:
            continue
        loop = VLoop().enter()
        try:
            a, gw = ezspenv.make_ezsp(loop, 4)
            got = []
            a.add_callback(lambda nme, args: got.append(nme))
            for name, cid, tx, rx in fresh:
                n += 1
                try:
                    a.frame_received(ezspenv.enc_response_hdr(4, 0x77, cid) + b"\x00\x01\x02\x03")
                except BaseException as e:  # noqa
                    rep.add_violation("C08|cross-version|raised", f"frame ID {cid:#x} (unknown to the legacy handler) raised {type(e).__name__}", {"world": "c08", "kind": "cross-version", "version": v})
            loop.settle()
            if got:
                rep.add_violation("C08|cross-version|callback", f"frames unknown to the legacy handler invoked callbacks {got}", {"world": "c08", "kind": "cross-version", "version": v})
            a._switch_protocol_version(v)
            b, gwb = ezspenv.make_ezsp(loop, v)
            for ez, g, label in ((a, gw, "the same EZSP object after negotiation"), (b, gwb, "another EZSP object in the process")):
                for name, cid, tx, rx in fresh:
                    n += 1
                    vals = [gv.one(ty, "mid") for ty in rx.values()]
                    n_sent = len(g.sent)
                    task = loop.create_task(ez._command(name))
                    loop.settle()
                    ok = False
                    if len(g.sent) == n_sent + 1:
                        seq = g.sent[-1][1][0]
                        ez.frame_received(ezspenv.enc_response_hdr(v, seq, cid) + ezspenv.encode_values(rx, vals))
                        loop.settle()
                        ok = task.done() and not task.cancelled() and task.exception() is None
                    if not ok:
                        rep.add_violation("C08|cross-version|afterwards", f"v{v} {name} (frame ID {cid:#x}, seen as an unknown frame by the legacy handler earlier) on {label}: "
                                          f"the command did not complete on its own reply", {"world": "c08", "kind": "cross-version", "version": v})
                    if not task.done():
                        task.cancel()
                        loop.settle()
        finally:
            loop.shutdown()
    return n


def main(tier: str) -> int:
    rep = report.Report("C08", tier, "exploration")
    n_iso = isolation_cases(rep)
    n_iso += cancelled_waiter_cases(rep)
    n_iso += cross_version_history_cases(rep)
    for v in ezspenv.VERSIONS:
        m = queued_behind_orphan(v)
        n_iso += 1
        if m:
            rep.add_violation("C08|afterwards|queued-behind-abandoned", f"v{v}: {m}", {"world": "c08", "kind": "queued", "version": v})
    pend = PENDING if tier != "quick" else [None, "getEui64", "getValue"]
    jobs = [(v, p, tier) for v in ezspenv.VERSIONS for p in pend]
    results = list(explore.pool().imap_unordered(run_job, jobs, chunksize=1))
    results.sort(key=lambda r: (r[0], str(r[1])))
    tot = {"frames": 0, "callbacks": 0, "base_frames": 0, "fresh_checks": 0}
    samples = []
    for version, pending, viol, stats in results:
        for k in tot:
            tot[k] += stats[k]
        if stats["sample"] and len(samples) < 4:
            samples.append(stats["sample"])
        for key, msg, rp in viol:
            rep.add_violation(key, msg, {"world": "c08", **rp})
    if tot["frames"] < 100000 or tot["callbacks"] < 1000:
        raise explore.InternalError(f"C08 vacuous: {tot}")
    rep.coverage = {
        "evaluations": tot["frames"],
        "distinct_nontrivial": tot["callbacks"],
        "base_frames": tot["base_frames"],
        "fresh_command_checks": tot["fresh_checks"],
        "isolation_cases": n_iso,
        "versions": ezspenv.VERSIONS,
        "pending_variants": [str(p) for p in pend],
        "exhaustive": True,
        "rule": "per version x pending variant: every rx schema (mid value tuple) x {original, truncation at every length, each byte XOR 01/80/FF, sequence byte pending/+-1, frame ID from the ID pool}; "
                "all byte strings of length <= 2 and all strings of length 3..5 (thorough 6) over {00,01,7F,80,FF,pending seq}; non-trivial = frames that led to a callback invocation",
        "samples": samples,
    }
    rep.assumptions = [
        "reference decoder is lenient about frame-control bytes (bellows ignores them; the property does not require rejecting them) and about trailing bytes",
        "a frame with the pending call's sequence number but another known frame ID may abandon the pending call (statement only forbids wrong completion)",
        "the 'commands issued afterwards still complete' clause is checked after every base frame's mutation batch and every 4096 raw strings",
    ]
    return rep.finish()


def replay(data) -> int:
    if data.get("kind") == "queued":
        m = queued_behind_orphan(data["version"])
        print(m)
        return 1 if m else 0
    if data.get("kind") == "isolation":
        rep = report.Report("C08", "quick", "exploration")
        isolation_cases(rep)
        for v in rep.violations:
            print(v.key, v.message)
        return 1 if rep.violations else 0
    ctx = Ctx(data["version"], data["pending"])
    bad = 0
    for hx in data["frames"]:
        fr = bytes.fromhex(hx)
        if data["pending"]:
            print("pending seq", ctx.pseq)
        m = ctx.feed(fr)
        print(hx, "->", m, ctx.cb1[:1])
        bad += bool(m)
    m = ctx.fresh_ok()
    print("fresh:", m)
    bad += bool(m)
    ctx.close()
    return 1 if bad else 0
