"""C16 -- config write never shrinks a table, honours overrides, sets the buffer count last.

Bounded exhaustive enumeration through the real ``EZSP.write_config`` with the real handler of
every version against a simulated NCP configuration store that logs every set frame:
for each setting of the version's schema: current NCP value {below, equal, above the value the
library would write; unreadable} x user override {absent, lower, higher, disabled} x answer
{accept, reject}, all other settings at base; all pairs over a set of interesting settings;
(thorough) triples over the capacity settings.
"""
from __future__ import annotations

import itertools

from mc import explore, report
from mc.env import ezspenv
from mc.vloop import VLoop

# "capacity settings (table sizes, child and network counts)" -- typed here by name, not read from bellows
CAPACITY = {
    "CONFIG_SUPPORTED_NETWORKS", "CONFIG_MULTICAST_TABLE_SIZE", "CONFIG_TRUST_CENTER_ADDRESS_CACHE_SIZE",
    "CONFIG_ADDRESS_TABLE_SIZE", "CONFIG_KEY_TABLE_SIZE", "CONFIG_MAX_END_DEVICE_CHILDREN",
    "CONFIG_SOURCE_ROUTE_TABLE_SIZE", "CONFIG_NEIGHBOR_TABLE_SIZE", "CONFIG_BINDING_TABLE_SIZE", "CONFIG_ROUTE_TABLE_SIZE",
    "CONFIG_DISCOVERY_TABLE_SIZE", "CONFIG_BROADCAST_TABLE_SIZE", "CONFIG_APS_UNICAST_MESSAGE_COUNT",
}
BUFFER = "CONFIG_PACKET_BUFFER_COUNT"
REJECT_STATUSES = ("ERROR_INVALID_VALUE", "ERROR_OUT_OF_MEMORY", "ERROR_INVALID_ID", "ERROR_INVALID_CALL")


class Run:
    """One write_config() call against a config store."""

    def __init__(self, version, current, overrides, reject, first=None, first_current=None, poller=False):
        import bellows.types as t

        self.t = t
        self.loop = VLoop().enter()
        self.ezsp, self.gw, self.ncp = ezspenv.make_stack(self.loop, version)
        self.current = dict(current)       # name -> int | None (unreadable); missing -> 0
        self.reject = dict(reject) if isinstance(reject, dict) else {n: "ERROR_INVALID_VALUE" for n in reject}
        self.sets = []                     # ("config", name, value, accepted) / ("value", name, bytes, accepted)
        ok = t.EzspStatus.SUCCESS
        bad = t.EzspStatus.ERROR_INVALID_ID

        def get_cfg(a):
            name = a["configId"].name
            v = self.current.get(name, 0)
            if v is None:
                return [bad, 0]
            return [ok, v]

        def set_cfg(a):
            name = a["configId"].name
            acc = name not in self.reject
            self.sets.append(("config", name, int(a["value"]), acc))
            if acc:
                self.current[name] = int(a["value"])
            return [ok if acc else t.EzspStatus[self.reject[name]]]

        def get_val(a):
            return [ok, b"\x00"]

        def set_val(a):
            name = a["valueId"].name
            acc = name not in self.reject
            self.sets.append(("value", name, bytes(a["value"]), acc))
            return [ok if acc else t.EzspStatus[self.reject[name]]]

        self.ncp.handlers.update(getConfigurationValue=get_cfg, setConfigurationValue=set_cfg, getValue=get_val, setValue=set_val)
        if first is not None:
            # an earlier configuration write on the SAME EZSP object (e.g. before a reset), with other overrides; the NCP's values
            # are then put back, so that the write under test can be compared with the same write on a fresh object
            if first_current is not None:
                self.current = dict(first_current)      # what the NCP reported during that earlier write
            t0 = self.loop.create_task(self.ezsp.write_config(dict(first)))
            self.loop.run_until_idle(horizon=600.0)
            if not t0.done():
                t0.cancel()
            self.sets.clear()
            self.current = dict(current)
        self.polled = []
        if poller:
            # another coroutine reads configuration values (keyword form, as load_network_info does) while the write is going on
            async def poll():
                ids = [t.EzspConfigId.CONFIG_SECURITY_LEVEL, t.EzspConfigId.CONFIG_STACK_PROFILE]
                for k in range(400):
                    if self.task.done():
                        break
                    cid = ids[k % 2]
                    st, val = await self.ezsp.getConfigurationValue(configId=cid)
                    self.polled.append((cid.name, int(val), self.current.get(cid.name, 0)))

            self.task = self.loop.create_task(self.ezsp.write_config(dict(overrides)))
            self.poll_task = self.loop.create_task(poll())
        else:
            self.task = self.loop.create_task(self.ezsp.write_config(dict(overrides)))
        self.loop.run_until_idle(horizon=600.0)
        self.exc = None
        self.hung = not self.task.done()
        if not self.hung and self.task.exception() is not None:
            self.exc = self.task.exception()
        self.loop.shutdown()


def schema_names(version):
    import bellows.config as conf

    sch = ezspenv.handler_class(version).SCHEMAS[conf.CONF_EZSP_CONFIG]
    names = []
    for k in sch.schema:
        names.append(str(getattr(k, "schema", k)))
    return sch, names


def valid_value(sch, name, candidates):
    for c in candidates:
        try:
            sch({name: c})
            return c
        except Exception:
            continue
    return None


def judge(version, current0, overrides, reject, run, baseline_sets):
    """Violations of one run (list of (rule, message))."""
    out = []
    if run.hung:
        return [("hang", "write_config never finished")]
    if run.exc is not None:
        return [("raised", f"write_config raised {type(run.exc).__name__}: {run.exc}")]
    cfg_sets = [s for s in run.sets if s[0] == "config"]
    names = [s[1] for s in cfg_sets]
    # each setting at most once
    for n in set(names):
        if names.count(n) > 1:
            out.append(("twice", f"{n} set {names.count(n)} times"))
    for kind, n, v, acc in cfg_sets:
        if n in overrides:
            if overrides[n] is None:
                out.append(("disabled-written", f"{n} was disabled by the user but was written ({v})"))
            elif v != overrides[n]:
                out.append(("override-changed", f"user value {overrides[n]} for {n} written as {v}"))
        elif n in CAPACITY:
            cur = current0.get(n, 0)
            if cur is not None and v < cur:
                out.append(("shrunk", f"{n}: NCP reports {cur}, no user override, library wrote {v}"))
    for n, v in overrides.items():
        if v is not None and n not in names:
            out.append(("override-missing", f"user value {v} for {n} was not written"))
    # buffer count last
    if BUFFER in names and names[-1] != BUFFER:
        out.append(("buffer-not-last", f"{BUFFER} was followed by {names[names.index(BUFFER) + 1:]}"))
    # a rejection must not change what else is written (differential against the all-accept run)
    if baseline_sets is not None:
        a = [(s[0], s[1], s[2]) for s in run.sets]
        b = [(s[0], s[1], s[2]) for s in baseline_sets]
        if a != b:
            missing = [x for x in b if x not in a]
            out.append(("reject-stops", f"with {sorted(reject)} rejected the frames differ from the all-accept run; missing {missing[:4]}"))
    return out


def run_version(args):
    version, tier = args
    import logging

    logging.disable(logging.CRITICAL)
    sch, names = schema_names(version)
    viol = []
    stats = {"runs": 0, "settings": len(names), "sets": 0, "sigs": set(), "sample": None}
    # what the library writes on a blank NCP with no overrides: gives per-setting "library value"
    base = Run(version, {}, {}, {})
    if base.exc is not None or base.hung:
        viol.append((f"C16|raised|v{version}|defaults", f"v{version}: write_config({{}}) on a blank NCP: {base.exc!r}", {"version": version, "current": {}, "overrides": {}, "reject": []}))
        return version, viol, stats
    libval = {s[1]: s[2] for s in base.sets if s[0] == "config"}

    def one(current, overrides, reject, label):
        stats["runs"] += 1
        baseline = None
        if reject:
            b = Run(version, current, overrides, {})
            baseline = b.sets
        r = Run(version, current, overrides, reject)
        stats["sets"] += len(r.sets)
        stats["sigs"].add((tuple((s[1], s[3]) for s in r.sets), type(r.exc).__name__))
        for rule, msg in judge(version, current, overrides, reject, r, baseline):
            # stable key: rule + for each overridden setting whether the library has its own default for it and how it was overridden
            ov = sorted({("library-default" if k in libval else "no-library-default") + ":" + ("disabled" if v is None else "set") for k, v in overrides.items()})
            key = f"C16|{rule}|{'+'.join(ov) or 'no-override'}"
            if rule == "shrunk":
                key = f"C16|shrunk|v{version}|{msg.split(':')[0]}"
            viol.append((key, f"v{version} [{label}] {msg}", {"version": version, "current": current, "overrides": overrides, "reject": dict(reject)}))
        if stats["sample"] is None and overrides and reject:
            stats["sample"] = {"version": version, "current": current, "overrides": overrides, "reject": dict(reject), "sets": r.sets[:6]}

    for name in names:
        lv = libval.get(name)
        ref = lv if lv is not None else 8
        lower = valid_value(sch, name, [max(ref - 1, 0), 1, 0, ref])
        higher = valid_value(sch, name, [ref + 3, ref + 1, ref])
        for cur_label, cur in (("below", max(ref - 1, 0)), ("equal", ref), ("above", ref + 40), ("unreadable", None)):
            for ov_label, ov in (("absent", "absent"), ("lower", lower), ("higher", higher), ("disabled", None)):
                if ov_label in ("lower", "higher") and ov is None:
                    continue
                overrides = {} if ov == "absent" else {name: ov}
                for rej in ({},) + tuple({name: st} for st in REJECT_STATUSES):
                    one({name: cur}, overrides, rej, f"{name}: current {cur_label}, override {ov_label}, {list(rej.values()) or 'accept'}")
    # history independence: the same write after an earlier write with other overrides on the same EZSP object
    for name in [n for n in names if n in CAPACITY][:6] + [BUFFER]:
        if name not in names:
            continue
        ref = libval.get(name, 8)
        lo = valid_value(sch, name, [max(ref - 1, 1), 1, ref])
        for first in ({name: lo}, {name: None}):
            if first[name] is None or lo is not None:
                for second in ({}, {name: valid_value(sch, name, [ref + 3, ref])}):
                    cur = {name: ref + 40}
                    stats["runs"] += 1
                    fresh = Run(version, cur, second, {})
                    again = Run(version, cur, second, {}, first=first)
                    a = [(x[0], x[1], x[2]) for x in again.sets]
                    b = [(x[0], x[1], x[2]) for x in fresh.sets]
                    if again.hung or again.exc is not None or a != b:
                        diff = [x for x in a if x not in b][:3] + [("missing",) + x for x in b if x not in a][:3]
                        viol.append((f"C16|history|{'disabled' if first[name] is None else 'set'}-then-{'default' if not second else 'override'}",
                                     f"v{version}: write_config({second}) after an earlier write_config({first}) on the same EZSP object differs from the same call on a fresh "
                                     f"object: {again.exc!r} {diff}", {"version": version, "current": cur, "overrides": second, "reject": {}, "first": first}))
    # ... after an earlier write during which the NCP could not report the setting (it can now, and reports more than the default)
    for name in [n for n in names if n in CAPACITY][:6]:
        ref = libval.get(name, 8)
        cur = {name: ref + 40}
        stats["runs"] += 1
        fresh = Run(version, cur, {}, {})
        again = Run(version, cur, {}, {}, first={}, first_current={name: None})
        a = [(x[0], x[1], x[2]) for x in again.sets]
        b = [(x[0], x[1], x[2]) for x in fresh.sets]
        if again.hung or again.exc is not None or a != b:
            diff = [x for x in a if x not in b][:3] + [("missing",) + x for x in b if x not in a][:3]
            viol.append(("C16|history|unreadable-then-readable", f"v{version}: write_config() with {name} reported as {ref + 40}, after an earlier write on the same EZSP object "
                         f"during which the NCP could not report it, differs from the same call on a fresh object: {again.exc!r} {diff}",
                         {"version": version, "current": cur, "overrides": {}, "reject": {}, "first": {}, "first_current": {name: None}}))
        # ... and with another coroutine polling configuration values meanwhile
        stats["runs"] += 1
        polled = Run(version, cur, {}, {}, poller=True)
        a = [(x[0], x[1], x[2]) for x in polled.sets]
        wrong = [x for x in polled.polled if x[1] != x[2]]
        if polled.hung or polled.exc is not None or a != b or wrong:
            diff = [x for x in a if x not in b][:3] + [("missing",) + x for x in b if x not in a][:3]
            viol.append(("C16|concurrent-reader", f"v{version}: write_config() with {name} reported as {ref + 40} while another coroutine reads configuration values differs from the "
                         f"undisturbed write: {polled.exc!r} {diff} {('reader got ' + str(wrong[:2])) if wrong else ''}",
                         {"version": version, "current": cur, "overrides": {}, "reject": {}, "poller": True}))
    # pairs over interesting settings
    interesting = [n for n in (BUFFER, "CONFIG_KEY_TABLE_SIZE", "CONFIG_BINDING_TABLE_SIZE", "CONFIG_MULTICAST_TABLE_SIZE",
                               "CONFIG_SECURITY_LEVEL", "CONFIG_NEIGHBOR_TABLE_SIZE") if n in names]
    opts = {}
    for n in interesting:
        ref = libval.get(n, 8)
        opts[n] = [("absent",), ("set", valid_value(sch, n, [ref + 2, ref])), ("set", valid_value(sch, n, [max(ref - 1, 1), ref])), ("disabled", None)]
    groups = itertools.combinations(interesting, 2) if tier == "quick" else itertools.chain(
        itertools.combinations(interesting, 2), itertools.combinations([n for n in names if n in CAPACITY][:8], 3))
    for grp in groups:
        ol = [opts.get(n) or [("absent",), ("set", valid_value(sch, n, [libval.get(n, 8) + 2])), ("disabled", None)] for n in grp]
        for combo in itertools.product(*ol):
            overrides = {}
            for n, o in zip(grp, combo):
                if o[0] == "set" and o[1] is not None:
                    overrides[n] = o[1]
                elif o[0] == "disabled":
                    overrides[n] = None
            for cur in ({}, {n: libval.get(n, 8) + 50 for n in grp}):
                for rej in ({}, {grp[0]: "ERROR_OUT_OF_MEMORY"}, {n: "ERROR_INVALID_VALUE" for n in grp}):
                    one(dict(cur), overrides, rej, f"group {grp}")
    stats["sigs"] = len(stats["sigs"])
    return version, viol, stats


def main(tier: str) -> int:
    rep = report.Report("C16", tier, "exploration")
    jobs = [(v, tier) for v in ezspenv.VERSIONS]
    results = sorted(explore.pool().imap_unordered(run_version, jobs, chunksize=1), key=lambda r: r[0])
    runs = sets = sigs = 0
    samples = []
    for version, viol, stats in results:
        runs += stats["runs"]
        sets += stats["sets"]
        sigs += stats["sigs"] if isinstance(stats["sigs"], int) else 0
        if stats["sample"]:
            samples.append(stats["sample"])
        for key, msg, rp in viol:
            rep.add_violation(key, msg, {"world": "c16", **rp})
    if runs < 5000 or sigs < 100:
        raise explore.InternalError(f"C16 vacuous: runs={runs} signatures={sigs}")
    rep.coverage = {
        "evaluations": runs,
        "distinct_nontrivial": sigs,
        "set_frames_seen": sets,
        "versions": ezspenv.VERSIONS,
        "exhaustive": True,
        "rule": "per version: every setting of the version's schema x current {below, equal, above, unreadable} x override {absent, lower, higher, disabled} x {accept, reject}; "
                "all pairs (thorough: + triples of capacity settings) x {blank NCP, large current values} x rejection sets; distinct = distinct (sequence of set frames with accept flags, outcome)",
        "samples": samples[:3],
    }
    rep.assumptions = [
        "capacity settings are listed by name in the check (table sizes, child and network counts)",
        "'a rejected setting does not stop the rest' is decided differentially: the set frames must equal those of the same run with every setting accepted",
        "override values are chosen inside each setting's schema validator range (schema validation errors are outside the property)",
    ]
    return rep.finish()


def replay(data) -> int:
    cur = {k: v for k, v in data["current"].items()}
    if data.get("first") is not None:
        fresh = Run(data["version"], cur, data["overrides"], {})
        again = Run(data["version"], cur, data["overrides"], {}, first=data["first"], first_current=data.get("first_current"))
        a, b = [x[:3] for x in again.sets], [x[:3] for x in fresh.sets]
        print("fresh:", b)
        print("after", data["first"], ":", a, repr(again.exc))
        return 1 if (a != b or again.exc is not None or again.hung) else 0
    if data.get("poller"):
        fresh = Run(data["version"], cur, data["overrides"], {})
        polled = Run(data["version"], cur, data["overrides"], {}, poller=True)
        a, b = [x[:3] for x in polled.sets], [x[:3] for x in fresh.sets]
        print("undisturbed:", b)
        print("with a concurrent reader:", a, repr(polled.exc), [x for x in polled.polled if x[1] != x[2]][:3])
        return 1 if (a != b or polled.exc is not None or polled.hung or any(x[1] != x[2] for x in polled.polled)) else 0
    r = Run(data["version"], cur, data["overrides"], data["reject"])
    b = Run(data["version"], cur, data["overrides"], {}) if data["reject"] else None
    for s in r.sets:
        print(s)
    print("exception:", repr(r.exc))
    v = judge(data["version"], cur, data["overrides"], data["reject"], r, b.sets if b else None)
    for x in v:
        print("VIOLATION:", x)
    return 1 if v else 0
