"""C20 -- the cross-thread proxy runs calls on the owner's loop and relays results.

Stateless deviation-bounded search over two hand-stepped event loops (owner and caller) that
one explorer drives in one OS thread: a step runs one ready callback of one loop with that loop
installed as the running loop, so every interleaving of the two loops' callbacks (up to the
preemption bound) is produced deterministically.  The real ``ThreadsafeProxy`` wraps a probe
object with every method kind; bursts of concurrent calls are issued from caller-loop tasks,
from owner-loop tasks (direct execution) and through wrappers that were looked up under the
other loop.  Owner-loop stop and close are explorer moves, also between any two *lines* of the
proxy's dispatch function (sys.settrace window).
"""
from __future__ import annotations

import asyncio
import itertools
import sys
from asyncio import events

from mc import explore, report
from mc.vloop import VLoop


class ProbeError(Exception):
    pass


class Probe:
    attr = 42

    def __init__(self, log):
        self.log = log

    def _rec(self, kind, arg):
        try:
            loop = events.get_running_loop()
        except RuntimeError:
            loop = None
        self.log.append((kind, arg, getattr(loop, "tag", None)))

    async def co_val(self, arg):
        self._rec("co_val", arg)
        await asyncio.sleep(0)
        self._rec("co_val-resumed", arg)
        return ("value", arg)

    async def co_raise(self, arg):
        self._rec("co_raise", arg)
        raise ProbeError(arg)

    def plain_none(self, arg):
        self._rec("plain_none", arg)

    def plain_val(self, arg):
        self._rec("plain_val", arg)
        return arg

    def plain_raise(self, arg):
        self._rec("plain_raise", arg)
        raise ProbeError(arg)


KINDS = ["co_val", "co_raise", "plain_none", "plain_val", "plain_raise"]


class World:
    def __init__(self, params):
        from bellows.thread import ThreadsafeProxy

        self.p = params
        self.owner = VLoop()
        self.owner.tag = "owner"
        self.caller = VLoop()
        self.caller.tag = "caller"
        self.exec_log = []
        self.probe = Probe(self.exec_log)
        self.proxy = ThreadsafeProxy(self.probe, self.owner)
        if params.get("nested"):
            # an unusual but legal input: a proxy handed to ThreadsafeProxy again, designated to the caller's loop (an application
            # object that is itself a proxy passed down as `application`).  Calls from the caller's loop go through the outer
            # proxy directly into the inner one, which must still dispatch them to the owner's loop.
            self.proxy = ThreadsafeProxy(self.proxy, self.caller)
        self.owner_state = "running"
        self.viol = []
        self.ended = False
        self.calls = []       # dict per call
        self.steps = 0
        self.preempt = params.get("line_preempt")   # (call index, nth line event, action)
        self._line_count = {}
        self.budget = {"stop": 1, "close": 1}
        if params.get("owner_initially") == "closed":
            self._close_owner()
        # scripts: list of (issuing loop, [kinds...], mode)
        for s_idx, (where, kinds, mode) in enumerate(params["scripts"]):
            self._start_script(s_idx, where, kinds, mode)

    # -- running one loop ------------------------------------------------------------------
    def _run_on(self, loop, fn):
        events._set_running_loop(loop)
        try:
            return fn()
        finally:
            events._set_running_loop(None)

    def _step(self, loop):
        self._run_on(loop, loop.run_one)

    def _close_owner(self):
        self.owner_state = "closed"
        self.owner._ready.clear()
        self.owner._scheduled.clear()
        self.owner._closed = True

    # -- scripts ------------------------------------------------------------------------------
    def _start_script(self, s_idx, where, kinds, mode):
        loop = self.owner if where == "owner" else self.caller
        other = self.caller if where == "owner" else self.owner
        world = self
        wrappers = {}
        if mode == "prefetched":
            # the bound wrapper is looked up while the *other* loop is running, then handed over
            def fetch():
                for k in set(kinds):
                    wrappers[k] = getattr(world.proxy, k)
            self._run_on(other, fetch)

        async def script():
            for n, kind in enumerate(kinds):
                rec = {"script": s_idx, "n": n, "kind": kind, "from": where, "mode": mode, "arg": f"s{s_idx}c{n}",
                       "owner_state_at_issue": world.owner_state, "ret": None, "outcome": None}
                world.calls.append(rec)
                idx = len(world.calls) - 1
                try:
                    world._tracing_call = idx
                    if kind == "attr":
                        f = getattr(world.proxy, "attr")
                        rec["outcome"] = ("no-error", f)
                        continue
                    f = wrappers.get(kind) or getattr(world.proxy, kind)
                    n_before = len(world.exec_log)
                    r = world._traced(f, rec["arg"])
                    rec["owner_state_after_issue"] = world.owner_state
                    rec["ran_synchronously"] = len(world.exec_log) > n_before
                    rec["ret"] = "awaitable" if hasattr(r, "__await__") else repr(r)
                    if hasattr(r, "__await__"):
                        rec["outcome"] = ("value", await r)
                    else:
                        rec["outcome"] = ("returned", r)
                except ProbeError as e:
                    rec["outcome"] = ("ProbeError", str(e))
                except TypeError as e:
                    rec["outcome"] = ("TypeError", str(e)[:40])
                except RuntimeError as e:
                    rec["outcome"] = ("RuntimeError", str(e)[:40])
                except asyncio.CancelledError:
                    rec["outcome"] = ("cancelled",)
                    raise
                finally:
                    world._tracing_call = None

        def create():
            return loop.create_task(script())

        if where == "owner" and self.owner_state == "closed":
            return
        self._run_on(loop, create)

    _tracing_call = None

    def _traced(self, f, arg):
        """Call the proxy wrapper; optionally close/stop the owner between two lines of its dispatch code."""
        if self.preempt is None or self.preempt[0] != self._tracing_call:
            return f(arg)
        target_line = self.preempt[1]
        action = self.preempt[2]
        count = [0]
        world = self

        def tracer(frame, event, a):
            if frame.f_code.co_name != "func_wrapper":
                return None

            def local(frame, event, a):
                if event == "line":
                    count[0] += 1
                    if count[0] == target_line:
                        if action == "close":
                            world._close_owner()
                        else:
                            world.owner_state = "stopped"
                return local
            return local

        sys.settrace(tracer)
        try:
            return f(arg)
        finally:
            sys.settrace(None)
            self.lines_seen = count[0]

    lines_seen = 0

    # -- explorer interface ---------------------------------------------------------------------
    def enabled(self):
        if self.ended:
            return []
        out = []
        c_ready = self.caller.ready_count() > 0
        o_ready = self.owner.ready_count() > 0 and self.owner_state == "running"
        if c_ready:
            out.append((("run", "caller"), 0))
            if o_ready:
                out.append((("run", "owner"), 1))
        elif o_ready:
            out.append((("run", "owner"), 0))
        else:
            out.append((("end",), 0))
        if self.preempt is None and self.steps < 300:
            if self.owner_state == "running" and self.budget["stop"] > 0:
                out.append((("stop-owner",), 1))
            if self.owner_state in ("running", "stopped") and self.budget["close"] > 0:
                out.append((("close-owner",), 1))
        return out

    def apply(self, i):
        label = self.enabled()[i][0]
        self.steps += 1
        self.viol = []
        if label[0] == "end":
            self.ended = True
            self._final()
        elif label[0] == "run":
            self._step(self.caller if label[1] == "caller" else self.owner)
        elif label[0] == "stop-owner":
            self.budget["stop"] -= 1
            self.owner_state = "stopped"
        elif label[0] == "close-owner":
            self.budget["close"] -= 1
            self._close_owner()
        self._check_exec()

    # -- oracle -----------------------------------------------------------------------------------
    def _check_exec(self):
        for kind, arg, tag in self.exec_log[getattr(self, "_seen", 0):]:
            rec = next((c for c in self.calls if c["arg"] == arg), None)
            if tag != "owner":
                self.viol.append(f"{kind} (issued from the {rec['from'] if rec else '?'} loop, wrapper {rec['mode'] if rec else '?'}) executed with the {tag} loop running, "
                                 f"not on the wrapped object's own loop")
            if rec is not None and rec["owner_state_at_issue"] == "closed" and rec["from"] == "caller":
                self.viol.append(f"{kind} executed although the owner's loop was closed when the call was made")
        self._seen = len(self.exec_log)

    def _final(self):
        exc_owner = [str(c.get("exception") or c.get("message")) for c in self.owner.exc_log]
        exc_owner_types = [type(c.get("exception")).__name__ for c in self.owner.exc_log]
        undisturbed = self.owner_state == "running"
        for c in self.calls:
            kind, arg = c["kind"], c["arg"]
            execs = [e for e in self.exec_log if e[1] == arg and e[0] == kind]
            out = c["outcome"]
            tag = f"{kind} from the {c['from']} loop ({c['mode']})"
            if kind == "attr":
                if not out or out[0] != "TypeError":
                    self.viol.append(f"non-callable attribute through the proxy: {out}, expected TypeError")
                continue
            if len(execs) > 1:
                self.viol.append(f"{tag}: executed {len(execs)} times")
            if c["from"] == "owner":
                # direct execution on the owner's own loop
                if out is None:
                    if undisturbed:
                        self.viol.append(f"{tag}: call never finished")
                    continue
                if kind.startswith("plain") and not c.get("ran_synchronously") and out[0] != "ProbeError":
                    self.viol.append(f"{tag}: a call from the owner's loop was not run directly")
                exp = {"co_val": ("value", ("value", arg)), "co_raise": ("ProbeError", arg), "plain_none": ("returned", None),
                       "plain_val": ("returned", arg), "plain_raise": ("ProbeError", arg)}[kind]
                if out != exp:
                    self.viol.append(f"{tag}: direct call gave {out}, expected {exp}")
                continue
            # cross-loop call
            if c["owner_state_at_issue"] == "closed":
                if execs:
                    self.viol.append(f"{tag}: executed on a closed owner loop")
                if out is None:
                    self.viol.append(f"{tag}: call on a closed owner loop blocked the caller")
                elif out[0] not in ("returned", "TypeError") or (out[0] == "returned" and out[1] is not None):
                    self.viol.append(f"{tag}: call on a closed owner loop gave {out}, expected to be dropped")
                continue
            if c.get("ran_synchronously"):
                self.viol.append(f"{tag}: executed synchronously inside the caller's call")
            if kind.startswith("plain"):
                if out is None or out[0] == "RuntimeError":
                    if out is None:
                        self.viol.append(f"{tag}: plain call did not return to the caller")
                    continue     # RuntimeError('Event loop is closed') in the check-then-act window: recorded, not judged
                if out != ("returned", None):
                    self.viol.append(f"{tag}: plain call returned {out} to the caller, expected None at once")
                if undisturbed and len(execs) != 1:
                    self.viol.append(f"{tag}: queued plain call executed {len(execs)} times although the owner's loop kept running")
                if undisturbed and kind == "plain_val" and "TypeError" not in exc_owner_types:
                    self.viol.append(f"{tag}: non-None result of a plain call was not reported as TypeError on the owner's loop")
            else:
                if undisturbed:
                    exp = ("value", ("value", arg)) if kind == "co_val" else ("ProbeError", arg)
                    if out != exp:
                        self.viol.append(f"{tag}: caller received {out}, expected {exp}")
                    if len(execs) != 1:
                        self.viol.append(f"{tag}: coroutine executed {len(execs)} times")
                elif out is not None and out[0] == "value" and out[1] != ("value", arg):
                    self.viol.append(f"{tag}: caller received {out}")

    def done(self):
        return self.ended

    def finish(self):
        return []

    def signature(self):
        return (self.owner_state, tuple((c["kind"], c["from"], c["outcome"][0] if c["outcome"] else None) for c in self.calls), tuple(e[2] for e in self.exec_log))

    def close(self):
        for lp in (self.caller, self.owner):
            try:
                events._set_running_loop(lp)
                for t in asyncio.all_tasks(lp):
                    t.cancel()
                for _ in range(20):
                    if not lp._ready:
                        break
                    lp.run_batch()
            except Exception:
                pass
            finally:
                events._set_running_loop(None)
            lp._ready.clear()
            lp._scheduled.clear()
            lp._closed = True


class DfsWorld:
    def __init__(self, params):
        self.w = World(params)
        self.all = []

    def done(self):
        return self.w.done()

    def enabled(self):
        return self.w.enabled()

    def apply(self, i):
        self.w.apply(i)
        self.all += self.w.viol

    def finish(self):
        return self.all

    def signature(self):
        return self.w.signature()

    def close(self):
        self.w.close()


def build(params):
    return DfsWorld(params)


def vkey(msg):
    import re

    m = re.sub(r"s\d+c\d+", "<arg>", msg)
    m = re.sub(r"\b\d+\b", "#", m)
    return "C20|" + re.sub(r"\s+", " ", m).strip()[:110]


def param_list(tier):
    out = []
    # every method kind from the caller loop, from the owner loop, and through a wrapper looked up under the other loop
    for kind in KINDS + ["attr"]:
        for where in ("caller", "owner"):
            for mode in ("fresh", "prefetched"):
                if kind == "attr" and mode == "prefetched":
                    continue
                out.append({"scripts": [(where, [kind], mode)]})
        out.append({"scripts": [("caller", [kind], "fresh")], "owner_initially": "closed"})
    # bursts of concurrent calls
    bursts = [
        [("caller", ["plain_none", "plain_raise", "plain_none", "plain_none"], "fresh")],
        [("caller", ["plain_val", "plain_none", "co_val"], "fresh")],
        [("caller", ["co_val", "co_raise"], "fresh"), ("caller", ["plain_none", "co_val"], "fresh")],
        [("caller", ["co_val"], "fresh"), ("owner", ["co_val", "plain_none"], "fresh")],
        [("caller", ["plain_raise", "co_val"], "fresh"), ("caller", ["plain_none"], "prefetched"), ("owner", ["plain_val"], "fresh")],
    ]
    bursts.append([("caller", ["co_val", "plain_none"], "fresh"), ("caller", ["plain_raise", "co_raise"], "fresh"), ("owner", ["plain_none", "co_val"], "fresh")])
    if tier != "quick":
        bursts.append([("caller", ["co_val", "plain_none", "co_val"], "fresh"), ("caller", ["plain_val", "co_raise", "plain_none"], "prefetched"),
                       ("owner", ["co_val", "plain_raise"], "fresh"), ("caller", ["plain_none", "plain_none"], "fresh")])
        bursts.append([("caller", ["co_val", "plain_none", "co_raise"], "fresh"), ("caller", ["plain_val", "co_val", "plain_none"], "fresh")])
        bursts += [[("caller", list(k), "fresh")] for k in itertools.permutations(["plain_none", "plain_raise", "co_val"], 3)]
    for b in bursts:
        out.append({"scripts": b})
    # proxy of a proxy, used from the caller's loop
    for kind in KINDS:
        out.append({"scripts": [("caller", [kind], "fresh")], "nested": True})
    out.append({"scripts": [("caller", ["plain_val", "plain_none", "co_val"], "fresh")], "nested": True})
    out.append({"scripts": [("caller", ["co_val", "co_raise"], "fresh"), ("caller", ["plain_none", "co_val"], "fresh")], "nested": True})
    return out


def line_window_params():
    """Close / stop the owner between any two lines of the dispatch function, for each cross-loop method kind."""
    out = []
    for kind in KINDS:
        for line in range(1, 16):
            for action in ("close", "stop"):
                out.append({"scripts": [("caller", [kind], "fresh")], "line_preempt": (0, line, action)})
    return out


def thread_lifecycle_cases(rep):
    """The owner is a real bellows.thread.EventLoopThread.  While its loop is held busy (gate), a stop request and one call
    through the proxy are queued in either order; the gate is released, the thread ends.  Both orders x {a coroutine that is still
    suspended when the loop stops, one that finishes at once, a plain call} are enumerated; ordering is forced, nothing is left to
    the OS scheduler.  Afterwards the owner's loop is gone: a plain call and a coroutine call through the proxy must be dropped --
    return at once, run nothing, hand back nothing to wait on."""
    import threading

    from bellows.thread import EventLoopThread, ThreadsafeProxy

    n = 0
    for order in ("stop-first", "call-first"):
        for window in ("co_suspended", "co_val", "plain_none"):
            n += 1
            log = []
            probe = Probe(log)

            async def co_suspended(arg, probe=probe):
                probe._rec("co_suspended", arg)
                await asyncio.sleep(3600)

            probe.co_suspended = co_suspended
            msgs = []

            async def scenario():
                th = EventLoopThread()
                await th.start()
                owner_loop = th.loop
                proxy = ThreadsafeProxy(probe, owner_loop)
                gate, entered = threading.Event(), threading.Event()

                def blocker():
                    entered.set()
                    gate.wait(20)

                owner_loop.call_soon_threadsafe(blocker)
                if not entered.wait(20):
                    msgs.append("harness: owner loop did not start")
                    return
                if order == "stop-first":
                    th.force_stop()
                    getattr(proxy, window)("w")
                else:
                    getattr(proxy, window)("w")
                    th.force_stop()
                gate.set()
                try:
                    await asyncio.wait_for(asyncio.shield(th.thread_complete), 20)
                except asyncio.TimeoutError:
                    msgs.append(f"{order}/{window}: the owner thread did not end after force_stop")
                    return
                n_exec = len(log)
                r1 = proxy.plain_none("late")
                r2 = proxy.co_val("late")
                await asyncio.sleep(0.05)
                if r1 is not None:
                    msgs.append(f"{order}/{window}: a plain call made after the owner's thread and loop ended returned {r1!r}")
                if r2 is not None:
                    done = getattr(r2, "done", lambda: False)()
                    msgs.append(f"{order}/{window}: a coroutine call made after the owner's thread and loop ended was not dropped: it returned "
                                f"{'a finished' if done else 'a never-finishing'} awaitable")
                    if hasattr(r2, "cancel"):
                        r2.cancel()
                if len(log) != n_exec:
                    msgs.append(f"{order}/{window}: a call made after the owner's loop ended was executed: {log[n_exec:]}")

            loop = asyncio.new_event_loop()
            try:
                loop.run_until_complete(asyncio.wait_for(scenario(), 90))
            except Exception as e:  # noqa
                msgs.append(f"{order}/{window}: scenario raised {type(e).__name__}: {e}")
            finally:
                try:
                    loop.run_until_complete(asyncio.sleep(0))
                    loop.close()
                except Exception:  # noqa
                    pass
            for m in msgs:
                if m.startswith("harness:"):
                    raise explore.InternalError(m)
                rep.add_violation("C20|thread|" + m.split(": ", 1)[1][:70], "EventLoopThread owner, " + m, {"world": "c20", "kind": "thread", "order": order, "window": window})
    return n


def thread_inflight_cases(rep):
    """Coroutine calls through the proxy are IN FLIGHT on a real EventLoopThread when force_stop() arrives.  Each call unwinds from
    the cancellation in its own way: at once, after 4 or 12 further loop iterations of clean-up (awaits in except / finally), or by
    finishing its clean-up and returning a value.  All ordered pairs and a few triples; the ordering is forced (every call has
    reported that it is running before the stop is requested).  Every caller must get a result or an exception -- none may be
    left waiting -- and the owner's thread must end."""
    from bellows.thread import EventLoopThread, ThreadsafeProxy

    kinds = ("at-once", "cleanup-4", "cleanup-12", "returns-after-cleanup")
    combos = list(itertools.product(kinds, repeat=2)) + [("cleanup-12", "at-once", "cleanup-4"), ("at-once", "at-once", "cleanup-12"),
                                                         ("returns-after-cleanup", "cleanup-12", "at-once")]
    n = 0
    for combo in combos:
        n += 1
        msgs = []

        class Target:
            def __init__(self):
                self.running = []

            async def call(self, kind, ident):
                steps = {"at-once": 0, "cleanup-4": 4, "cleanup-12": 12, "returns-after-cleanup": 6}[kind]
                self.running.append(ident)
                try:
                    await asyncio.sleep(3600)
                except asyncio.CancelledError:
                    for _ in range(steps):
                        await asyncio.sleep(0)
                    if kind == "returns-after-cleanup":
                        return ("cleaned", ident)
                    raise
                return ("slept", ident)

        async def scenario():
            th = EventLoopThread()
            await th.start()
            target = Target()
            proxy = ThreadsafeProxy(target, th.loop)
            futs = [asyncio.ensure_future(proxy.call(kind, i)) for i, kind in enumerate(combo)]
            for _ in range(2000):
                if len(target.running) == len(combo):
                    break
                await asyncio.sleep(0.001)
            else:
                msgs.append("harness: the calls did not start on the owner's loop")
                return
            th.force_stop()
            done, pending = await asyncio.wait(futs, timeout=8)
            for i, f in enumerate(futs):
                if f in pending:
                    msgs.append(f"calls {list(combo)} in flight at force_stop: the caller of call #{i} ({combo[i]}) got neither a result nor an exception")
                    f.cancel()
                elif not f.cancelled():
                    f.exception()
            try:
                await asyncio.wait_for(asyncio.shield(th.thread_complete), 8)
            except asyncio.TimeoutError:
                msgs.append(f"calls {list(combo)} in flight at force_stop: the owner thread did not end")

        loop = asyncio.new_event_loop()
        try:
            loop.run_until_complete(asyncio.wait_for(scenario(), 60))
        except Exception as e:  # noqa
            msgs.append(f"calls {list(combo)} in flight at force_stop: scenario raised {type(e).__name__}: {e}")
        finally:
            try:
                loop.run_until_complete(asyncio.sleep(0))
                loop.close()
            except Exception:  # noqa
                pass
        for m in msgs:
            if m.startswith("harness:"):
                raise explore.InternalError(m)
            rep.add_violation("C20|thread-inflight|" + m.split(": ", 1)[1][:60].replace(str(list(combo)), ""), "EventLoopThread owner, " + m,
                              {"world": "c20", "kind": "thread-inflight", "combo": list(combo)})
        if msgs and n >= 3:
            break       # (every further case would wait for its time-out as well)
    return n


def thread_call_during_call_cases(rep):
    """A plain call through the proxy is being EXECUTED on the owner's thread (its body waits on a gate) when the caller's thread
    makes further calls through the same proxy -- plain ones and a coroutine call; then the gate opens.  Every call must be executed,
    on the owner's thread, exactly once and in the order it was made; afterwards a further call still works (forced ordering, real
    threads; covers queues / batches of calls that are being drained while new calls arrive)."""
    import threading

    from bellows.thread import EventLoopThread, ThreadsafeProxy

    n = 0
    for later in (("plain",), ("plain", "plain"), ("coro",), ("plain", "coro", "plain"), ("raising", "plain")):
        n += 1
        msgs = []

        class Target:
            def __init__(self):
                self.log = []
                self.gate = threading.Event()
                self.entered = threading.Event()

            def blocking(self, ident):
                self.log.append((ident, threading.get_ident()))
                self.entered.set()
                self.gate.wait(20)

            def plain(self, ident):
                self.log.append((ident, threading.get_ident()))

            def raising(self, ident):
                self.log.append((ident, threading.get_ident()))
                raise ValueError("plain call fails")

            async def coro(self, ident):
                self.log.append((ident, threading.get_ident()))
                return ident

        async def scenario():
            th = EventLoopThread()
            await th.start()
            owner_ident = {}
            th.loop.call_soon_threadsafe(lambda: owner_ident.setdefault("id", threading.get_ident()))
            th.loop.set_exception_handler(lambda loop, ctx: None)
            target = Target()
            proxy = ThreadsafeProxy(target, th.loop)
            proxy.blocking("first")
            for _ in range(4000):
                if target.entered.is_set():
                    break
                await asyncio.sleep(0.001)
            else:
                msgs.append("harness: the first call did not start on the owner's thread")
                return
            waits = []
            for i, kind in enumerate(later):
                r = getattr(proxy, kind)(f"{kind}-{i}")
                if kind == "coro":
                    waits.append(asyncio.ensure_future(r))
            target.gate.set()
            r = proxy.coro("last")
            try:
                await asyncio.wait_for(r, 8)
            except asyncio.TimeoutError:
                msgs.append(f"calls {list(later)} made while an earlier plain call was executing: a coroutine call made afterwards never completed")
            for w in waits:
                try:
                    await asyncio.wait_for(w, 8)
                except asyncio.TimeoutError:
                    msgs.append(f"calls {list(later)} made while an earlier plain call was executing: the coroutine call among them never completed")
            want = ["first"] + [f"{k}-{i}" for i, k in enumerate(later)] + ["last"]
            got = [x for x, _ in target.log]
            # every call exactly once; queued plain calls in the order they were made (a coroutine call starts through a task, its
            # place among the plain calls is not fixed by the property)
            plain = lambda seq: [x for x in seq if not x.startswith("coro") and x != "last"]  # noqa: E731
            if (sorted(got) != sorted(want) or plain(got) != plain(want)) and not msgs:
                msgs.append(f"calls {list(later)} made while an earlier plain call was executing: executed {got}, expected {want} (each once, plain calls in order)")
            if any(tid != owner_ident.get("id") for _, tid in target.log):
                msgs.append(f"calls {list(later)} made while an earlier plain call was executing: a call ran on a thread other than the owner's")
            th.force_stop()
            try:
                await asyncio.wait_for(asyncio.shield(th.thread_complete), 8)
            except asyncio.TimeoutError:
                pass

        loop = asyncio.new_event_loop()
        try:
            loop.run_until_complete(asyncio.wait_for(scenario(), 60))
        except Exception as e:  # noqa
            msgs.append(f"calls {list(later)} made while an earlier plain call was executing: scenario raised {type(e).__name__}: {e}")
        finally:
            try:
                loop.run_until_complete(asyncio.sleep(0))
                loop.close()
            except Exception:  # noqa
                pass
        for m in msgs:
            if m.startswith("harness:"):
                raise explore.InternalError(m)
            rep.add_violation("C20|thread-call-during-call|" + m.split(": ", 1)[1][:60], "EventLoopThread owner, " + m, {"world": "c20", "kind": "thread-call-during-call", "later": list(later)})
        if msgs and n >= 2:
            break
    return n


def main(tier: str) -> int:
    rep = report.Report("C20", tier, "model_checking")
    n_thread = thread_lifecycle_cases(rep)
    n_thread += thread_inflight_cases(rep)
    n_thread += thread_call_during_call_cases(rep)
    k = 4 if tier == "quick" else 6
    st = explore.dbdfs(("mc.checks.c20", "build"), param_list(tier), k, budget_s=(60 if tier == "quick" else 1200))
    st2 = explore.dbdfs(("mc.checks.c20", "build"), line_window_params(), 0)
    for s in (st, st2):
        for v, params, choices, labels in s.violations:
            rep.add_violation(vkey(v), v, {"world": "c20", "params": params, "choices": choices})
    if len(st.signatures) < 20:
        raise explore.InternalError(f"C20 vacuous: {len(st.signatures)} signatures")
    rep.coverage = {
        "real_thread_lifecycle_cases": n_thread,
        "states": st.steps + st2.steps,
        "transitions": st.steps + st2.steps,
        "traces_validated_against_impl": st.executions + st2.executions,
        "executions": st.executions + st2.executions,
        "line_window_executions": st2.executions,
        "max_preemptions_completed": k if not st.capped else k - 1,
        "capped": st.capped,
        "exhaustive": not st.capped,
        "distinct_outcome_signatures": len(st.signatures) + len(st2.signatures),
        "max_depth": st.max_depth,
        "rule": "stateless search over two hand-stepped loops; default: the caller's ready callbacks run first; a deviation runs an owner callback while the caller still has ready "
                "callbacks (a preemption), stops the owner's loop or closes it; all executions with <= k deviations for every method kind x issuing loop x wrapper-lookup loop x "
                "initial owner state and for bursts of 3-5 concurrent calls; plus close/stop between any two lines of the dispatch function",
        "samples": st.samples[:3],
    }
    rep.assumptions = [
        "callback-granular interleavings of two simulated loops in one OS thread; the only objects shared across real threads are loop._ready and concurrent.futures.Future, both internally synchronised by CPython",
        "EventLoopThread.start/force_stop (real ThreadPoolExecutor thread) are abstracted to the owner states running / stopped / closed",
        "a call already queued when the owner stops may never complete; RuntimeError('Event loop is closed') raised in the check-then-act window is recorded, not judged",
    ]
    return rep.finish()


def replay(data) -> int:
    if data.get("kind") == "thread":
        rep = report.Report("C20", "quick", "model_checking")
        thread_lifecycle_cases(rep)
        for v in rep.violations:
            print(v.key, v.message)
        return 1 if rep.violations else 0
    p = dict(data["params"])
    p["scripts"] = [tuple(s) for s in p["scripts"]]
    if p.get("line_preempt"):
        p["line_preempt"] = tuple(p["line_preempt"])
    w = World(p)
    bad = []
    for c in data["choices"]:
        if w.done():
            break
        en = w.enabled()
        print(en[c][0])
        w.apply(c)
        for v in w.viol:
            print("   VIOLATION:", v)
        bad += w.viol
    print(w.signature())
    print(w.calls)
    w.close()
    return 1 if bad else 0
