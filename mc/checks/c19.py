"""C19 -- the watchdog requests a restart only after the tolerated run of consecutive failures.

ES-BFS to closure over the real ``ControllerApplication._watchdog_feed`` with a real EZSP,
real protocol handler (v4, v8, v14) and a simulated NCP on a hand-stepped loop with a virtual
clock.  State = (consecutive failures capped, feed counter mod the configured clear period);
every state x every keep-alive outcome {success; counter read unanswered -> TimeoutError after
10 s; free-buffer read unanswered; EZSP stopped -> EzspError}.  The merged graph is validated by
stateless enumeration of all outcome sequences up to a length bound, and the shipped period
(180) is run along 185 feeds with a failure at every single position.
"""
from __future__ import annotations

import asyncio
import itertools

from mc import explore, report
from mc.env import appenv
from mc.vloop import VLoop

from mc import tunables

MAX_TOLERATED = tunables.watchdog_max_failures()   # "the tolerated maximum": bellows' MAX_WATCHDOG_FAILURES, not fixed by the property
PERIOD_SMALL = 3
OUTCOMES_V4 = ["ok", "silent", "stopped", "invalid", "reconnect", "late", "overlap-silent", "overlap-invalid"]
OUTCOMES = ["ok", "silent-counters", "silent-buffers", "stopped", "invalid", "ok-nobuf", "reconnect", "late", "overlap-silent", "overlap-invalid"]
# "overlap-x": two feeds are started together (the periodic loop and a second caller of watchdog_feed) and both keep-alives fail in
# the way x: two failures in a row, counted in the order the feeds end.
# "late": the keep-alive is answered only after the host's command time-out (the reply, under the same sequence number, arrives
# between two feeds): the feed has failed by time-out; a late reply is not a successful feed.   # ok-nobuf: counters read, the free-buffer value is refused (a successful feed)
# "reconnect" is not a keep-alive outcome: ControllerApplication.connect() runs again on the same application object between two
# feeds (what zigpy does after a restart request).  It is not a successful feed, so the run of failures continues across it.
INVALID = ("__raw__", 0x58, b"\x36")     # the NCP answers the keep-alive with invalidCommand (reason: unsupported) -- an EZSP error
CMD_TIMEOUT = tunables.ezsp_cmd_timeout()


class World:
    def __init__(self, params):
        import bellows.zigbee.application as A

        self.A = A
        self.version = params["version"]
        self.period = params.get("period", PERIOD_SMALL)
        A.EZSP_COUNTERS_CLEAR_IN_WATCHDOG_PERIODS = self.period
        self.loop = VLoop().enter()
        self.app, self.ezsp, self.gw, self.ncp = appenv.make_app(self.loop, self.version)
        import bellows.types as t

        self.t = t
        self.mute = set()
        self.install(self.ncp)
        self.ezsp.add_callback(self.app.ezsp_callback_handler)     # (what start_network() does)
        # reference state
        self.run = 0        # consecutive failures
        self.ordinal = 0    # feeds so far
        self.phases = {0}   # possible values of (feeds counted towards the clear period) mod period
        self.viol = []
        self.outcomes = OUTCOMES_V4 if self.version == 4 else OUTCOMES

    def install(self, ncp):
        t = self.t
        ncounters = len(list(t.EmberCounterType))

        def counters(a, kind):
            if "counters" in self.mute:
                return None
            if "invalid" in self.mute:
                return INVALID
            return [[k % 7 for k in range(ncounters)]]

        ncp.handlers["nop"] = lambda a: None if "nop" in self.mute else (INVALID if "invalid" in self.mute else [])
        ncp.handlers["readCounters"] = lambda a: counters(a, "read")
        ncp.handlers["readAndClearCounters"] = lambda a: counters(a, "clear")
        ncp.handlers["getValue"] = lambda a: None if "buffers" in self.mute else ([t.EzspStatus.ERROR_INVALID_ID, b""] if "nobuf" in self.mute else [t.EzspStatus.SUCCESS, b"\x20"])
        ncp.handlers["addEndpoint"] = lambda a: [0]

    def reconnect(self):
        """ControllerApplication.connect() once more on the same application object: a new EZSP object on a new (simulated) NCP
        connection; reset, negotiation and configuration write are not what is looked at here and are stubbed."""
        import bellows.ezsp
        from mc.env import ezspenv

        self.viol = []
        ezsp, gw, ncp = ezspenv.make_stack(self.loop, self.version)
        self.install(ncp)

        async def nothing(*a, **k):
            return None

        ezsp.connect = nothing
        ezsp.startup_reset = nothing
        ezsp.write_config = nothing
        real = bellows.ezsp.EZSP
        bellows.ezsp.EZSP = lambda *a, **k: ezsp
        try:
            task = self.loop.create_task(self.app.connect())
            self.loop.run_until_idle(horizon=self.loop.time() + 60.0)
        finally:
            bellows.ezsp.EZSP = real
        if not task.done() or task.exception() is not None or self.app._ezsp is not ezsp:
            raise explore.InternalError(f"C19 harness: connect() on the simulated stack did not complete: {task!r}")
        self.ezsp, self.gw, self.ncp = ezsp, gw, ncp
        ezsp.add_callback(self.app.ezsp_callback_handler)
        # the phase of the periodic read-and-clear may or may not restart with the new connection (not the property's business)
        self.phases = self.phases | {0}

    def enabled(self):
        return [((o,), 0) for o in self.outcomes]

    def apply(self, i):
        self.feed(self.outcomes[i])

    def feed(self, outcome):
        t = self.t
        if outcome == "reconnect":
            return self.reconnect()
        if outcome.startswith("overlap-"):
            return self.feed_overlap(outcome.split("-", 1)[1])
        self.viol = []
        self.mute = set()
        late = outcome == "late"
        if late:
            outcome = "silent" if self.version == 4 else "silent-counters"
        if outcome == "silent":
            self.mute = {"nop"}
        elif outcome == "silent-counters":
            self.mute = {"counters"}
        elif outcome == "silent-buffers":
            self.mute = {"buffers"}
        elif outcome == "invalid":
            self.mute = {"invalid"}
        elif outcome == "ok-nobuf":
            self.mute = {"nobuf"}
        self.at_deadline = outcome == "deadline"
        if outcome == "stopped":
            self.ezsp.stop_ezsp()
        else:
            self.ezsp.start_ezsp()
        n0 = len(self.ncp.log)
        t0 = self.loop.time()
        task = self.loop.create_task(self.app._watchdog_feed())
        if self.at_deadline:
            # the NCP's answer to the keep-alive is read in the very loop iteration in which the command timeout expires
            # (I/O callbacks run before timers): the feed may count as answered or as timed out, but nothing else
            held = []
            deliver0 = self.ncp.deliver
            self.ncp.deliver = held.append
            self.loop.settle()
            self.ncp.deliver = deliver0
            dl = self.loop.next_deadline()
            if held and dl is not None:
                self.loop._vtime = max(self.loop._vtime, dl)
                for fr in held:
                    self.loop.call_soon(self.ezsp.frame_received, fr)
                self.loop.fire_timers()
        self.loop.run_until_idle(horizon=t0 + 60.0)
        if not task.done():
            self.viol.append(f"feed with outcome {outcome} never finished")
            task.cancel()
            self.loop.settle()
            return
        raised = task.exception() is not None
        exc = task.exception()
        if self.at_deadline:
            # either reading of the race is fine; only the exception type is judged (first feed: never a restart request)
            if raised:
                self.viol.append(f"keep-alive answered in the same loop iteration as its timeout: feed raised {type(exc).__name__}: {exc}")
            return
        # reference
        self.ordinal += 1
        failed = outcome not in ("ok", "ok-nobuf")
        if failed:
            self.run += 1
        else:
            self.run = 0
        want_raise = failed and self.run > MAX_TOLERATED
        if raised != want_raise:
            self.viol.append(f"feed #{self.ordinal} (outcome {outcome}, {self.run} consecutive failures): "
                             f"{'raised ' + type(exc).__name__ if raised else 'returned normally'}, expected "
                             f"{'a restart request (exception)' if want_raise else 'a normal return'}")
        elif raised and not isinstance(exc, (asyncio.TimeoutError, self.A.EzspError)):
            self.viol.append(f"feed raised {type(exc).__name__}: {exc}")
        # keep-alive commands seen by the NCP
        seen = [name for _, name, _, _ in self.ncp.log[n0:]]
        ok_phases = set()
        exps = []
        for ph in sorted(self.phases):
            first = "readAndClearCounters" if (ph + 1) % self.period == 0 else "readCounters"
            if outcome == "stopped":
                exp = []
            elif self.version == 4:
                exp = ["nop"]
            else:
                exp = [first] if outcome in ("silent-counters", "invalid") else [first, "getValue"]
            if outcome == "stopped" and self.version != 4 and seen == [first]:
                # the counter read goes through the protocol handler directly and is still sent when EZSP is marked
                # stopped; the free-buffer read then raises EzspError.  Which of the two commands fails is not the property's business.
                exp = seen
            exps.append(exp)
            if seen == exp:
                ok_phases.add((ph + 1) % self.period)
        if not ok_phases:
            self.viol.append(f"feed #{self.ordinal} (outcome {outcome}, period {self.period}): NCP saw {seen}, expected {' or '.join(map(str, exps))}")
            ok_phases = {(ph + 1) % self.period for ph in self.phases}
        self.phases = ok_phases
        if outcome in ("silent", "silent-counters", "silent-buffers"):
            dt = self.loop.time() - t0
            if abs(dt - CMD_TIMEOUT) > 1e-6:
                self.viol.append(f"unanswered keep-alive ended after {dt:.3f}s, expected the {CMD_TIMEOUT} s command timeout")
        if late and len(self.ncp.log) > n0:
            # now the NCP's answer to that very request arrives
            from mc.env import ezspenv

            _, name, _, raw = self.ncp.log[n0]
            seq, fid, _ = ezspenv.dec_hdr(self.ncp.framing, raw)
            rx = self.ncp.cls.COMMANDS[name][2]
            vals = [] if name == "nop" else [[k % 7 for k in range(len(list(t.EmberCounterType)))]]
            self.ncp.deliver(ezspenv.enc_response_hdr(self.ncp.framing, seq, fid) + ezspenv.encode_values(rx, vals))
            self.loop.settle()

    def feed_overlap(self, how):
        self.viol = []
        self.mute = {"invalid"} if how == "invalid" else ({"nop"} if self.version == 4 else {"counters"})
        self.ezsp.start_ezsp()
        t0 = self.loop.time()
        tasks = [self.loop.create_task(self.app._watchdog_feed()) for _ in range(2)]
        self.loop.run_until_idle(horizon=t0 + 60.0)
        for k, task in enumerate(tasks):
            self.ordinal += 1
            if not task.done():
                self.viol.append(f"overlapping feed #{k + 1} ({how}) never finished")
                task.cancel()
                continue
            self.run += 1
            raised = task.exception() is not None
            want = self.run > MAX_TOLERATED
            if raised != want:
                self.viol.append(f"two feeds in flight together, both keep-alives fail ({how}): feed #{self.ordinal} ({self.run} consecutive failures) "
                                 f"{'raised ' + type(task.exception()).__name__ if raised else 'returned normally'}, expected "
                                 f"{'a restart request (exception)' if want else 'a normal return'}")
            elif raised and not isinstance(task.exception(), (asyncio.TimeoutError, self.A.EzspError)):
                self.viol.append(f"overlapping feed raised {type(task.exception()).__name__}: {task.exception()}")
        self.loop.settle()
        self.phases = {(ph + 2) % self.period for ph in self.phases}

    def renegotiate(self):
        """What a reset + version negotiation on the same EZSP object does to the protocol handler (EZSP.reset installs the legacy
        handler, version() the negotiated one): the handler object is replaced, the version number recurs."""
        sw = getattr(self.ezsp, "_switch_protocol_version", None)
        if sw is None:
            return False
        sw(4)
        sw(self.version)
        self.ncp.framing = self.version
        return True

    def step_violations(self):
        return self.viol

    def done(self):
        return False

    def canon(self):
        return (min(self.run, MAX_TOLERATED + 2), tuple(sorted(self.phases)), self._impl_state())

    def _impl_state(self):
        """Every integer the application keeps under a name that mentions the watchdog -- directly or inside a small state object --
        each as (saturated at the tolerated maximum + 2, modulo the clear period): whichever of them is the run of failures or the
        feed counter, under whatever name, the canonical state separates what the implementation separates and stays finite."""
        out = []
        for k, v in sorted(vars(self.app).items()):
            if "watchdog" not in k.lower():
                continue
            vals = []
            if type(v) is int:
                vals = [(k, v)]
            elif hasattr(v, "__dict__") or hasattr(type(v), "__slots__"):
                names = list(getattr(v, "__dict__", {})) + [n for n in getattr(type(v), "__slots__", ()) if isinstance(n, str)]
                vals = [(k + "." + n, getattr(v, n)) for n in sorted(set(names)) if hasattr(v, n) and type(getattr(v, n)) is int]
            for name, x in vals:
                out.append((name, min(x, MAX_TOLERATED + 2), x % self.period))
        return tuple(out)

    def close(self):
        self.loop.shutdown()


def build(params):
    return World(params)


def vkey(msg):
    import re

    m = re.sub(r"#\d+", "#", msg)
    m = re.sub(r"\b\d+(\.\d+)?s?\b", "#", m)
    m = re.sub(r"\[[^\]]*\]", "[]", m)
    return "C19|" + re.sub(r"\s+", " ", m).strip()[:110]


def _worker_init():
    import logging

    logging.disable(logging.CRITICAL)


def graph_job(args):
    """Phase 1 (one job per version): ES-BFS to closure, the race at the deadline, the shipped period."""
    v, tier = args
    _worker_init()
    import bellows.zigbee.application as A

    shipped_period = A.EZSP_COUNTERS_CLEAR_IN_WATCHDOG_PERIODS
    viol = []
    out = {"v": v, "states": 0, "transitions": 0, "stateless": 0, "sigs": set(), "samples": [], "viol": viol, "internal": None, "edges": {}}
    try:
        edges = out["edges"]
        g = explore.esbfs(World, {"version": v}, on_transition=lambda s, l, d: edges.__setitem__((s, tuple(l)), d))
        if not g.closed:
            out["internal"] = "C19 state space did not close"
            return out
        out["states"], out["transitions"] = g.states, g.transitions
        out["samples"] = g.samples[:1]
        outs = OUTCOMES_V4 if v == 4 else OUTCOMES
        for msg, params, hist, label in g.violations:
            viol.append((vkey(msg), f"v{v}: {msg}", {"world": "c19", "version": v, "period": PERIOD_SMALL, "outcomes": [outs[c] for c in hist]}))
        # the answer lands in the same loop iteration as the command timeout (first feed of a fresh application)
        w = World({"version": v})
        w.feed("deadline")
        for msg in w.viol:
            viol.append((vkey(msg), f"v{v}: {msg}", {"world": "c19", "version": v, "period": PERIOD_SMALL, "outcomes": ["deadline"]}))
        w.close()
        out["stateless"] += 1
    finally:
        A.EZSP_COUNTERS_CLEAR_IN_WATCHDOG_PERIODS = shipped_period
    return out


def seq_job(args):
    """Phase 2 (one job per version and first outcome): every outcome sequence of the stated depth without merging, each step
    compared with the merged graph; the handler-replacement sequences; the shipped period along 185 feeds."""
    v, tier, first, edges = args
    _worker_init()
    import bellows.zigbee.application as A

    shipped_period = A.EZSP_COUNTERS_CLEAR_IN_WATCHDOG_PERIODS
    depth = 5 if tier == "quick" else 6
    viol = []
    out = {"v": v, "states": 0, "transitions": 0, "stateless": 0, "sigs": set(), "samples": [], "viol": viol, "internal": None}
    outs = OUTCOMES_V4 if v == 4 else OUTCOMES
    try:
        d = depth if v == 4 else depth - 1
        for rest in itertools.product(range(len(outs)), repeat=d - 1):
            seq = (first,) + rest
            w = World({"version": v})
            trace = []
            for c in seq:
                src = w.canon()
                w.apply(c)
                trace.append((outs[c], bool(w.viol)))
                for msg in w.viol:
                    viol.append((vkey(msg), f"v{v}: {msg}", {"world": "c19", "version": v, "period": PERIOD_SMALL, "outcomes": [outs[x] for x in seq]}))
                dst = w.canon()
                if not w.viol and edges.get((src, (outs[c],))) != dst:
                    out["internal"] = f"C19 canonical abstraction unsound at {seq}: {src} --{outs[c]}--> {dst}, graph has {edges.get((src, (outs[c],)))}"
                    return out
                if w.viol:
                    break
            w.close()
            out["stateless"] += 1
            out["sigs"].add((v, tuple(trace)))
        # the protocol handler is replaced (reset + re-negotiation on the same EZSP object) before feed k of every short sequence
        for rest in itertools.product(range(len(outs)), repeat=2):
            seq = (first,) + rest
            for k in range(3):
                w = World({"version": v})
                hist = []
                for j, c in enumerate(seq):
                    if j == k:
                        if not w.renegotiate():
                            break
                        hist.append("<handler replaced>")
                    w.apply(c)
                    hist.append(outs[c])
                    for msg in w.viol:
                        viol.append((vkey("after a reset and re-negotiation: " + msg), f"v{v}: after a reset and re-negotiation on the same EZSP object: {msg}",
                                     {"world": "c19", "version": v, "period": PERIOD_SMALL, "outcomes": list(hist)}))
                    if w.viol:
                        break
                w.close()
                out["stateless"] += 1
        if v != 4:
            positions = [p for p in range(185) if p % len(outs) == first] + (["run", "run+reconnect"] if first == 0 else [])
            for pos in positions:
                w = World({"version": v, "period": shipped_period})
                seq = []
                for k in range(185):
                    o = "ok"
                    if pos in ("run", "run+reconnect") and 177 <= k < 182:
                        o = "silent-counters"
                    elif pos == k:
                        o = ("silent-counters", "stopped", "silent-buffers")[k % 3]
                    if pos == "run+reconnect" and k == 180:
                        seq.append("reconnect")
                        w.feed("reconnect")
                    seq.append(o)
                    w.feed(o)
                    if w.viol:
                        for msg in w.viol:
                            viol.append((vkey(msg), f"v{v}: {msg}", {"world": "c19", "version": v, "period": shipped_period, "outcomes": list(seq)}))
                        break
                w.close()
                out["stateless"] += 1
    finally:
        A.EZSP_COUNTERS_CLEAR_IN_WATCHDOG_PERIODS = shipped_period
    return out


def main(tier: str) -> int:
    rep = report.Report("C19", tier, "model_checking")
    versions = [4, 8, 14] if tier == "quick" else [4, 5, 7, 8, 9, 13, 14]
    depth = 5 if tier == "quick" else 6
    graphs = sorted(explore.pool().imap_unordered(graph_job, [(v, tier) for v in versions], chunksize=1), key=lambda r: r["v"])
    jobs = [(g["v"], tier, first, g["edges"]) for g in graphs if not g["internal"]
            for first in range(len(OUTCOMES_V4 if g["v"] == 4 else OUTCOMES))]
    parts = sorted(explore.pool().imap_unordered(seq_job, jobs, chunksize=1), key=lambda r: r["v"])
    results = graphs + parts
    states = transitions = stateless = 0
    sigs = set()
    samples = []
    for r in results:
        for key, msg, rp in r["viol"]:
            rep.add_violation(key, msg, rp)
    for r in results:
        if r["internal"]:
            raise explore.InternalError(r["internal"])
        states += r["states"]
        transitions += r["transitions"]
        stateless += r["stateless"]
        sigs |= r["sigs"]
        samples += r["samples"]
        for key, msg, rp in r["viol"]:
            rep.add_violation(key, msg, rp)
    if states < 10 or len(sigs) < 100:
        raise explore.InternalError(f"C19 vacuous: states={states} sigs={len(sigs)}")
    rep.coverage = {
        "states": states,
        "transitions": transitions,
        "traces_validated_against_impl": transitions + stateless,
        "closed": True,
        "exhaustive": True,
        "stateless_sequences": stateless,
        "stateless_depth": depth,
        "distinct_stateless_traces": len(sigs),
        "versions": versions,
        "rule": f"ES-BFS over (consecutive failures capped at {MAX_TOLERATED + 2}, feed ordinal mod period {PERIOD_SMALL}) x keep-alive outcomes and the move 'connect() again on the same application object'; every transition is one real _watchdog_feed() (or connect()) "
                "against the simulated NCP; then every outcome sequence of the stated depth without merging, each step compared with the merged graph; then the shipped period along 185 feeds "
                "with a failure at every single position and a run of 5 failures across the boundary",
        "samples": samples[:3] + [{"stateless_example": ["ok", "silent-counters", "stopped", "silent-buffers", "ok"]}],
    }
    rep.assumptions = [
        "tolerated maximum and command timeout are read from bellows as tunables; the clear period is configured through the module constant (3 for the closed graph, the shipped value for the long runs)",
        "the feed ordinal counts every feed, failed ones included (one feed per watchdog period)",
        "connect() on the same application object between two feeds is not a successful feed: the run of failures continues across it; whether the phase of the periodic read-and-clear restarts with the new connection is left open (both accepted)",
        "ControllerApplication is constructed with zigpy.util.Requests back-filled (mc/env/compat.py)",
    ]
    return rep.finish()


def replay(data) -> int:
    import bellows.zigbee.application as A

    shipped = A.EZSP_COUNTERS_CLEAR_IN_WATCHDOG_PERIODS
    try:
        w = World({"version": data["version"], "period": data.get("period", PERIOD_SMALL)})
        bad = 0
        for o in data["outcomes"]:
            if o == "<handler replaced>":
                w.renegotiate()
                continue
            w.feed(o)
            if w.viol or len(data["outcomes"]) < 20:
                print(o, "->", w.viol)
            bad += len(w.viol)
        w.close()
    finally:
        A.EZSP_COUNTERS_CLEAR_IN_WATCHDOG_PERIODS = shipped
    return 1 if bad else 0
