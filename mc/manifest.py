"""Generates /verif/MANIFEST.json from the table below:  python -m mc.manifest"""
from __future__ import annotations

import json
import os

VERIF = os.path.dirname(os.path.dirname(os.path.abspath(__file__)))

# id -> (category, technique, level text, level note, design ref)
CHECKS: dict[str, tuple[str, str, str, str, str]] = {}
NOT_APPLICABLE: dict[str, str] = {}
# later strengthenings, appended to the level texts below
EXTRA = {
    "C01": " Every 4th payload of the wrap runs is 180-200 bytes long (data field beyond 128 bytes).",
    "C02": " Plus every control byte 0..255 with a valid CRC in front of four data fields, whole and bytewise; host ACK/NAK frames must carry res = nRdy = 0.",
    "C04": " Short sequences are also run next to a second, busy AshProtocol object (isolation between objects); host ACK/NAK frames must carry res = nRdy = 0; numeric attributes that grow without bound along a probe run (diagnostic counters) are excluded from the canonical state and listed in the evidence.",
    "C05": " Further moves: a NAK whose ackNum covers the outstanding frame, the caller of the outstanding send cancelled, the host's own reset request on a failed link followed by a send.",
    "C06": " The deviation window of the 300-command run is placed at the wrap and at the start (a deviation met again 256 commands later); re-negotiation cases replace the protocol handler on the live EZSP object and use the same commands again.",
    "C08": " Isolation cases: a pending command is never ended by a frame given to another EZSP object in the process or to the handler that replaced its own.",
    "C10": " Also: the failure frame in the same read as the frame already on the line; a silent NCP with callers that give up after 4 s each.",
    "C13": " Plus a reset and re-negotiation on the same EZSP object after a timed-out command, followed by callbacks that carry the stale sequence byte.",
    "C17": " Isolation: the completing event is delivered to a second EZSP object in the same process only (the operation must keep waiting, nothing may remain registered on either object).",
    "C18": " Undefined 32-bit unified codes must keep their numeric value through construction, wire decoding and conversion.",
    "C19": " Outcomes include the NCP answering the keep-alive with invalidCommand; the protocol handler is replaced (reset + re-negotiation) before feed k of every outcome sequence of length 3.",
    "C20": " Plus a proxy of a proxy used from the caller's loop, and six forced-order lifecycle cases on a real bellows.thread.EventLoopThread (stop request and one call queued in either order while the owner's loop is held busy; calls after the thread ended must be dropped).",
}


def reg(pid, category, technique, text, note, ref):
    CHECKS[pid] = (category, technique, text, note, ref)


reg("C04", "model_checking",
    "explicit-state BFS to closure over the real AshProtocol receive path (88 states x 181 frames), canon validated by stateless enumeration",
    "Closed state graph: every reachable receiver state x every well-formed frame of the alphabet, each transition one real data_received() call "
    "judged by an independent reference receiver; closure covers sequences of any length, including every wrap of the 3-bit numbers.",
    "Reference codec/receiver mc/env/ref_ash.py (anchored to UG101 literal vectors); payload contents are one pattern; frames arrive whole (chunking is C02).",
    "DESIGN.md section 3 C04")

reg("C02", "exploration",
    "bounded exhaustive enumeration of byte streams x read chunkings against an independent reference decoder",
    "Every stream of <= 3 (thorough 4) tokens over a 32-token reserved-byte-rich alphabet, in every chunking (all 2^(n-1) for short streams), plus all 2-byte / selected 3-byte raw streams from "
    "every expected-number state, many-frames-per-read cases around the buffer bound, a garbage x read-size memory matrix, and the local commutation step feed(x+y) == feed(x);feed(y) "
    "from every reachable receiver state; outputs (deliveries, ACK/NAK numbers) compared with mc/env/ref_ash.RefReceiver.",
    "Reference decoder is my reading of UG101 (anchored by literal vectors). Streams longer than the token bound are covered only through the commutation step; nothing is sampled.",
    "DESIGN.md section 3 C02")

reg("C03", "exploration",
    "complete enumeration of frame fields / codes / lengths / bit flips against an independently written ASH encoder",
    "All frame types x all control-field values x 256 codes x payload lengths 0..200 x 5 payload patterns (thorough: full product), all 256 control bytes, every 1- and 2-bit corruption of 7 short frames; "
    "to_bytes, the bytes reaching transport.write(), parse_frame of both encodings, stuffing of every byte value.",
    "Reference encoder mc/env/ref_ash.py (bitwise CRC, LFSR from the UG101 rule), anchored to UG101 literal vectors.",
    "DESIGN.md section 3 C03")

reg("C18", "exploration",
    "complete enumeration of both 8-bit status families, all unified statuses and undefined 32-bit values",
    "Exhaustive over the input domain of sl_Status.from_ember_status: totality, pass-through, OK iff success code, steering codes against an independently typed numeric table.",
    "Steering table typed from EmberZNet headers as numbers in mc/checks/c18.py.",
    "DESIGN.md section 3 C18")

reg("C15", "model_checking",
    "explicit-state BFS to closure over the real Multicast object against a simulated NCP table, every initial table, every write outcome",
    "Closed state graph for table sizes 0..4 and 3 groups from every initial NCP table (each group at most once), both status families: every reachable state x "
    "{startup, subscribe, unsubscribe} x {accepted, rejected, TimeoutError}; each transition is the real coroutine judged by a reference derived from the NCP table only "
    "(write allowed? which index? entry contents? return status?) plus the index-partition invariant in every state; closure covers sequences of every length. A second closed graph drives EZSPEndpoint.add_to_group / remove_from_group on a real zigpy device.",
    "A timed-out write is assumed not applied; reads succeed; CPython's set.pop() hand-out order is normalised by the harness after each step (the un-normalised order is run statelessly to depth 2/3).",
    "DESIGN.md section 3 C15")

reg("C05", "model_checking",
    "explicit-state search (level-synchronous BFS on canonical states) of the real AshProtocol transmit path under every per-attempt peer reaction, virtual time",
    "Every reachable state of {queued sends x per-attempt peer reaction from an 18-item menu (covering ACK / DATA, stale and non-covering ACKs (ackNum f, f-1, f+4), NAK, silence, ERROR 0x51/0x80, RSTACK, "
    "reaction coinciding with the ACK timeout in one loop iteration, NAK+ERROR in one read, reactions 0.3 s late and 10 ms ahead of the ACK timeout) x failure -> silent link -> RSTACK recovery -> further send, a send submitted during a send after a mid-send RSTACK}, "
    "closed for each listed configuration incl. warm-ups that wrap the frame number and drive the adaptive timeout to its floor; the timestamped wire trace is judged incrementally "
    "(budget, same frmNum/payload, reTx flag, repeat timing in [0.4, 3.2] s or at once on NAK, single failure report, silence until RSTACK, consecutive numbering, one outstanding frame).",
    "Rare reactions draw on per-run budgets (stated in the evidence); the 0.4 s / 3.2 s bounds are the UG101 values hard-coded in the check, the attempt budget is read from bellows.ash.ACK_TIMEOUTS; model = implementation on a hand-stepped asyncio loop.",
    "DESIGN.md section 3 C05")

reg("C11", "fault_enumeration",
    "complete enumeration of reset/error codes x arrival timings, plus deviation-bounded stateless search over per-loop-iteration event injection on the real Gateway+AshProtocol",
    "All 256 RSTACK codes and all non-reset ERROR codes x {before the request, at once, late but in time, same loop iteration as the timeout, after the timeout, twice} x counter pairs x "
    "{reset, start-up wait}; then every schedule with <= 2 (thorough 3) injected events {software / power-on RSTACK, ERROR, NCP DATA, port error, EOF, host send} each placed in any loop "
    "iteration, optionally coinciding with the earliest timer, for reset, repeated reset, start-up wait and reset after traffic. Judged: RST bytes, completion iff software RSTACK after the request "
    "and before the timeout, failure calls for every other code, release of waiters on loss, both counters at zero after the handshake (checked through real traffic).",
    "Timeouts 5 s / 1 s hard-coded in the oracle; same-iteration races accept either winner; only _run_once-feasible orders are generated.",
    "DESIGN.md section 3 C11")

reg("C07", "exploration",
    "complete enumeration of all (version, command) pairs x type-directed boundary value tuples through real command() calls and the real receive path",
    "All 2 751 version/command pairs: frame-ID injectivity; bytes handed to the gateway == independently written header of that version's layout + declared field serialisations in declared order; "
    "positional vs keyword (reversed) call forms; the response built from a generated tuple completes the call with exactly those values and no trailing bytes; every rx schema fed as an "
    "unsolicited frame reaches the callback unchanged. Tuples: all-min / all-max / all-mid, undefined enum values, empty and maximal variable-length fields (thorough: every variant of every field).",
    "Header layouts typed from UG100 in mc/env/ezspenv.py; payload fields use the declared types' own serialize() (byte-level field independence is C13/C03). invalidCommand is only fed as a frame, not called.",
    "DESIGN.md section 3 C07")

reg("C08", "exploration",
    "bounded exhaustive enumeration of malformed frames (mutation family of every rx schema + all short byte strings) through the real EZSP.frame_received in every version",
    "Per version x {idle, pending getEui64/getValue (thorough: +nop, getConfigurationValue)}: every rx schema x {truncation at every length, each byte XOR 01/80/FF, sequence = pending/+-1, "
    "frame ID substitution (thorough: every ID 0..0x120)}; all strings of length <= 2 and length 3..5(6) over {00,01,7F,80,FF,pending seq}: never raises, pending call completed only by its own "
    "sequence+ID with the reference decode, callbacks only for frames the reference decoder decodes fully (same name/args, both callbacks equally), a fresh command still completes afterwards.",
    "Reference decoder = header layout + schema walk, lenient about frame-control and trailing bytes; abandonment of the pending call on an ID mismatch is accepted.",
    "DESIGN.md section 3 C08")

reg("C06", "model_checking",
    "deviation-bounded stateless search (all schedules with <= k environment deviations) over the real ProtocolHandler.command / EZSP.frame_received on a hand-stepped loop",
    "4-5 concurrent callers of three priority classes (two start orders, one late starter) per header layout; every execution with <= 2 (thorough 3) deviations from {callback frame, duplicate "
    "reply, reply under a foreign sequence number, callback carrying the pending sequence number, silence to the 10 s timeout, late reply to an abandoned request, link-level send failure, held "
    "send, cancellation of any caller at any of its awaits, callback (un)registration, late start}; plus 300 sequential commands (sequence wrap) with every single deviation in a window. Oracle: "
    "own-sequence reply or TimeoutError at exactly +10 s, one request in flight, priority/FIFO order, sequence numbers +1 mod 256, unsolicited frames to every registered callback exactly once, no leaked slot.",
    "Callback frames carry the sequence number of the last answered command (firmware behaviour); replies to abandoned requests may be dropped; stateless search: 'states' counts visited world states without merging.",
    "DESIGN.md section 3 C06")

reg("C16", "exploration",
    "bounded exhaustive enumeration of (version, current NCP configuration, override set, per-setting answer) through the real EZSP.write_config against a logging config store",
    "Versions 4..14 x every setting of the version's schema x current {below, equal, above, unreadable} x override {absent, lower, higher, disabled} x answer {accept, 4 rejection statuses}; "
    "all pairs of 6 interesting settings (thorough: + triples of capacity settings) x {blank, large current} x rejection sets. Judged on the set frames the simulated NCP saw: each ID at most once, "
    "no capacity setting lowered without a user override, overrides verbatim, disabled settings not written and no exception, buffer count last, rejection changes nothing else (differential against the all-accept run).",
    "Capacity settings listed by name in the check; values chosen inside the schema validators' ranges. One known finding (v7 key-table schema default) is listed in KNOWN_FINDINGS.txt.",
    "DESIGN.md section 3 C16")

reg("C19", "model_checking",
    "explicit-state BFS to closure over the real ControllerApplication._watchdog_feed (real EZSP + handler + simulated NCP, virtual clock), canon validated statelessly",
    "Closed graph over (consecutive failures, feed ordinal mod the configured clear period) x keep-alive outcome {success, counter read unanswered, free-buffer read unanswered, EZSP stopped} for v4 "
    "(nop) and later versions (counter reads); each transition is one real feed judged by a 10-line reference: raises iff more than 4 failures in a row, success clears, which keep-alive commands "
    "the NCP saw (read-and-clear exactly on the period), unanswered keep-alive ends at +10 s. All outcome sequences of length 5-6 (thorough 6-7) run without merging and compared edge by edge; "
    "the shipped period 180 is run along 185 feeds with a failure at every position.",
    "Tolerated maximum and timeout hard-coded in the oracle; period configured through the module constant; zigpy.util.Requests back-filled to construct the application.",
    "DESIGN.md section 3 C19")

reg("C17", "model_checking",
    "complete enumeration of every order of every subset of each operation's event set, each a full execution of the real operation on a hand-stepped loop",
    "formNetwork, leaveNetwork, network bring-up and startScan (v4, v8, v14; thorough 8 versions): all permutations of all subsets of {response ok / refusals, two matching status events, "
    "non-matching events, result callbacks, completion ok / error, timer expiry, cancellation} (about 57 000 executions quick). A reference automaton gives the expected outcome and the exact event "
    "that ends the operation (completion requires response OK and a matching event at any time after issue, also before the response; timeouts at exactly 10 s); left-over events are still delivered, "
    "listener tables must be back to their size, and the operation is run again from the state reached; plus all 720 orders of a second scan requested while a first one is in progress.",
    "Callbacks carry the last answered sequence number; timeouts hard-coded; scan results after the completion callback are optional; leak clause reads _callbacks / _stack_status_listeners.",
    "DESIGN.md section 3 C17")

reg("C13", "exploration",
    "bounded exhaustive enumeration of byte-level callback frames (independent encoder, both field orders) through the real receive path into ControllerApplication, every version",
    "Versions 4..14 x message types 0..7 x boundary sets of 15 fields (one-at-a-time + all pairs; thorough: triples) incl. RSSI -128/127, payload lengths 0..200, group/endpoint/profile extremes: "
    "exactly one packet for unicast/multicast/broadcast with every field equal to the encoded bytes and the type-dependent destination, none otherwise; trust-centre join callbacks for every status x "
    "decision x address set, singly and as two joins in one read: join / leave / nothing as specified; the same application object reconnected to NCPs of other versions (field order must follow the active version).",
    "Frames are packed with struct in mc/checks/c13.py (pre-v14 and v14 layouts), independent of bellows types; recorders replace packet_received / handle_join / handle_leave on the instance.",
    "DESIGN.md section 3 C13")

reg("C12", "model_checking",
    "deviation-bounded stateless search over the real ControllerApplication.send_packet with a frame-level NCP simulator, virtual clock",
    "Two (thorough: three) concurrent packets from {plain / source-routed / extended-timeout / IEEE-addressed known+unknown unicast, multicast, broadcast} per version (4, 8, 9, 14; thorough 4..14); "
    "every execution with <= 2 (3) deviations: each busy and refusal enqueue status, failed / foreign-tag (also a 16-bit tag sharing the low byte on v14) / foreign-destination / duplicate / unsolicited / early confirmation, silence to the confirmation timeout, "
    "address-lookup miss, cancellation. Reference outcome per packet (normal return iff accepted and own confirmation success; DeliveryError on refusal, after the last busy answer (at once or after one more delay), failed "
    "confirmation; TimeoutError at the confirmation timeout), empty pending table at the end, retry spacing, and set-up/send blocks judged on the NCP's request log.",
    "Send requests are decoded and confirmations built from the UG100 wire layouts (struct), not through bellows' schemas; confirmation timeout and retry delays are read from bellows as tunables; stateless search ('states' = visited world states, no merging); zigpy.util.Requests back-filled.",
    "DESIGN.md section 3 C12")

reg("C01", "model_checking",
    "deviation-bounded stateless search: real AshProtocol host x independent reference ASH endpoint (window 1..3) over two faulty FIFO lines, all schedules with <= k deviations",
    "Every execution with <= 2 (thorough 3) deviations from {drop, detectable corruption, duplication of a frame in either direction (the copy adjacent, or late behind the frames in flight), a 4-frame outage, cross-direction reordering, timer stall on "
    "either side, early submission, cancellation of a host caller} for NCP windows 1..3, 3+3 payloads (idle-submitted and in bursts, NCP with and without NAK on corrupted frames), plus 10 (18) "
    "payloads per side wrapping the 3-bit numbers with <= 1 (2) deviations. Oracle on every step: both upper layers see an in-order duplicate-free subsequence; a completed send was handed up exactly "
    "once (both directions), a failed one at most once; below the retry budget every non-cancelled send succeeds; nothing hangs.",
    "The reference NCP (mc/env/ref_endpoint.py) is first validated against a second instance of itself under the same explorer and oracle; its retransmission timer is untimed; lines are FIFO.",
    "DESIGN.md section 3 C01")

reg("C09", "fault_enumeration",
    "enumeration of every single (thorough: double) line fault at every wire frame of the full real bring-up against a framing-aware simulated NCP, per NCP version / path / start-up variant",
    "Whole real stack (EZSP.connect -> startup_reset -> write_config, then stop + second startup_reset + write_config) on a hand-stepped loop; NCP versions 4, 7, 8, 14, 15 (thorough 4..16, 255) x "
    "{serial, socket://} x spontaneous start-up RSTACK {absent, early, late}; one execution per (wire frame, loss / detectable corruption / duplication), about 9 000 quick. Judged: first host frame "
    "is the RST unless the start-up reset was seen on a socket path, first EZSP frame after every reset is the legacy version(4), negotiated version == NCP's, own tables (v14 above 14), confirming "
    "query in the new layout, no wrongly framed request ever reaches the NCP, write_config completes, DATA/ACK faults are absorbed; a bring-up that timed out is retried once on the same connection and must then succeed with a fresh RST.",
    "NCP = reference ASH endpoint + EZSP simulator answering only correctly framed requests; a damaged RST/RSTACK or a second in-flight RSTACK may end in TimeoutError (inherent to ASH).",
    "DESIGN.md section 3 C09")

reg("C10", "fault_enumeration",
    "crash-point enumeration: one failure of each kind injected before/after every step of each workload's fault-free trace on the full real stack, also coinciding with the earliest host timer",
    "After a real bring-up with an application callback registered: workloads {idle, one command in flight, one in flight + one queued, reset in progress, reset against a mute NCP} + keep-alive, and the same after an earlier ERROR frame that went unreported because the callback was registered late, "
    "serial and socket paths, v4/v8/v14 (thorough 8 versions); failure kinds ERROR(0x51, 0x80), unsolicited RSTACK(0x00, 0x02, 0x06), silent NCP, port error, EOF, deliberate close, each alone and "
    "in the same loop iteration as the earliest pending timer. Judged: controller-reset request reaches the application (with the reason, at once; for a silent NCP within keep-alive + command + "
    "link budget; a reset in progress reports through its own exception), EZSP stopped, a new command raises EzspError and writes nothing, in-progress calls end within command timeout + attempts x 3.2 s, close produces no request.",
    "Command timeout and attempt count read from bellows as tunables; NCP = reference ASH endpoint + EZSP simulator; use_thread=False, one hand-stepped loop, only _run_once-feasible orders.",
    "DESIGN.md section 3 C10")

reg("C20", "model_checking",
    "stateless preemption-bounded search over two hand-stepped event loops (owner / caller) driving the real ThreadsafeProxy, plus line-level close/stop inside the dispatch function",
    "Every interleaving with <= 4 (thorough 6) preemptions / owner stop / owner close of the two loops' callbacks, for every method kind (coroutine returning / raising, plain returning None / a "
    "value / raising, non-callable attribute) x issuing loop {other, owner} x wrapper looked up under {same, other} loop x owner initially {running, closed}, and for bursts of 3-5 concurrent calls; "
    "plus owner close/stop between any two lines of func_wrapper. Judged: probe bodies observe the owner loop as the running loop, results/exceptions relayed, plain calls return None at once and "
    "run exactly once, non-None result -> TypeError on the owner, direct execution from the owner loop, closed loop -> dropped without executing or blocking.",
    "Callback-granular interleavings in one OS thread (real-thread preemption inside CPython internals is outside); EventLoopThread abstracted to owner states; queued calls on a stopped loop may never complete.",
    "DESIGN.md section 3 C20")

reg("C14", "exploration",
    "bounded exhaustive enumeration of network-settings families x version x NCP capability x prior NCP state through the real write/read paths against a stateful reference NCP",
    "Versions 4..14 x {rewritable EUI64 token, not} x prior state {blank, restored with the same backup, with another backup} x base / one-at-a-time / all pairs over link keys 0-1-3, children "
    "(with/without NWK address), TC address known / unknown (zigpy's singleton and an equal copy), hashed link key present/absent, frame counters incl. 2^32-1, channel, update id, key sequence, PAN ids, node IEEE: the real "
    "write_network_info + load_network_info(load_devices=True) (resets, config writes, version negotiation inside) and field-by-field comparison of the read-back; the initial-security-state frame the "
    "NCP received is checked for keys, hashed flag and trust-centre presence flag / address.",
    "Largest hand-written environment (mc/env/ncp_net.py); its firmware-semantics assumptions are listed in the evidence file. v5+ cases use the well-known TC link key (the only one bellows supports with hashing).",
    "DESIGN.md section 3 C14")

ALL = ["C%02d" % i for i in range(1, 21)]


# wave 11 strengthenings (two operations in flight together; long or damaged histories)
EXTRA3 = {
    "C02": " 2- and 3-frame streams fed while a host DATA frame is outstanding (nothing may raise out of the receive callback or the loop).",
    "C03": " Between the repeats of a suspended send the receiver is made to write an ACK / NAK of its own.",
    "C04": " Third transmit context: reset request written, RSTACK outstanding; pairs also in one read.",
    "C07": " Two calls of one command with different keyword arguments in flight together, for every command with arguments.",
    "C08": " A frame with the pending command's sequence number read while its caller is cancelled / timed out but has not resumed; frame IDs seen as unknown by the legacy handler, then used after the negotiation (same object and another object).",
    "C09": " A command issued by another coroutine between RST and RSTACK; the NCP restarting on its own while the second start-up of a socket path waits.",
    "C11": " ACK and RSTACK read in one loop iteration with a host frame outstanding.",
    "C12": " Scripted histories: an earlier request failing (busy on every attempt, refused, confirmed failed, never confirmed) before an ordinary one; set-up frames issued after their request was cancelled count as interleaving.",
    "C13": " A unicast callback delivered at every suspension point of a concurrent settings read (load_network_info).",
    "C14": " Two reads in flight together (second started at the first one's k-th command); an ordinary read after a read during which the NCP refused a key export.",
    "C15": " Subscribe / unsubscribe of the same group in flight together, with mixed answers to the two writes.",
    "C16": " A write after an earlier write on the same EZSP object during which the NCP could not report the setting; a write with another coroutine reading configuration values in keyword form.",
    "C17": " Hand-over between two operations waiting for the same status (the first one has seen its event and waits for its response when the second registers).",
    "C18": " The sweep is repeated after library activity in the same process (EZSP resets, two resets in flight together, version switches).",
    "C19": " Two feeds in flight together, both failing.",
    "C20": " Calls made while an earlier plain call is executing on the owner's thread (real EventLoopThread).",
}

# wave 8 / wave 9 strengthenings
EXTRA2 = {
    "C02": " Data fields longer than the 256-byte randomisation sequence; recovery (next valid frame accepted) after a buffer-full of garbage.",
    "C03": " Frames written through the real send paths (send_data first transmission, repeat after a NAK, repeat after the acknowledgement time-out, receiver ACK / NAK, send_reset) for every payload length 0..200 x 5 patterns on a hand-stepped loop, compared byte for byte with the reference encoder.",
    "C07": " History cases per version on one EZSP object: a lost reply followed by 300 further calls (a full turn of the sequence numbers), a reset of the same object (legacy layout by the fresh handler) and re-negotiation.",
    "C11": " A host DATA frame outstanding (unacknowledged) when the RSTACK of a requested reset arrives, submitted before the request or after the RST: numbering must restart at zero.",
    "C13": " Join histories: joins that start the manufacturer-code override with every fate of the earlier override in between (pending, finished, first / second command unanswered, refused, application disconnected and reconnected).",
    "C15": " Start-up whose table writes time out, or time out / are refused after the first one was accepted.",
    "C20": " Coroutine calls in flight on a real EventLoopThread at force_stop (all ordered pairs of four ways of unwinding from the cancellation, and triples): no caller may be left waiting.",
    "C04": " A payload with an escape byte in front of every escapable value. Every frame of the alphabet and every relative pair is also fed while the transmit side of the same object has a DATA frame outstanding or has used up its retry budget.",
    "C06": " First-come first-served order is also checked inside the packet-send priority class.",
    "C09": " The same EZSP object is closed and connected again (third reset + negotiation + configuration write, with every single line fault on that connection).",
    "C12": " Message tags straddling the wrap of the application's 8-bit sequence number; a successful confirmation with the request's own destination and tag while the NCP has only answered busy; the leak clause is also judged without the private container name (futures still referenced from the application's book-keeping). Foreign confirmations of non-direct message types; packets whose set-up request (extended time-out, source route) precedes the send; multicast / broadcast packets mixed in.",
    "C14": " The reference NCP keeps the outgoing frame counters in tokens of their own (kept across leave / key-table clear / reboot, zeroed by formNetwork only without NO_FRAME_COUNTER_RESET and by tokenFactoryReset); the prior network carries a different counter, so a counter of 0 must really be written. A child without NWK address ahead of children with one; the NCP refuses the k-th link-key write with a transient error (the other keys must still be stored).",
    "C17": " Two operations waiting for one stack status; repeated scan readings for one channel. Bring-up with the application's own callback handler registered: a bring-up repeated after an NCP restart must query the NCP again. Leak clause also judged without the private container names.",
    "C18": " The sweep is repeated with DEBUG logging enabled.",
    "C19": " A successful feed whose free-buffer read is refused; connect() once more on the same application object between any two feeds (closed graph and stateless sequences): the run of failures continues across it. Keep-alive answered only after the command time-out (the late reply, delivered between two feeds with the application's callback handler registered, is not a successful feed).",
}


EXTRA4 = {
    "C02": " RSTACK and ERROR frames with each of the 256 reset / error codes (named in bellows' enumeration or not) from two expected-number states, whole and bytewise: the notification passed up carries the code on the wire.",
    "C07": " Leaf codec of every integer enumeration reachable from a schema (39 types): every value of the 8- and 16-bit ranges, boundary values of wider ones, keeps its numeric value through decode and encodes back to the same bytes.",
    "C14": " getNetworkKeyInfo (v13+) is packed by hand from the EZSP reference layout with an alternate-key sequence byte that differs from the current key's.",
}


def build() -> dict:
    checks = []
    for pid in ALL:
        if pid not in CHECKS:
            continue
        cat, tech, text, note, ref = CHECKS[pid]
        text = text + EXTRA.get(pid, "") + EXTRA2.get(pid, "") + EXTRA3.get(pid, "") + EXTRA4.get(pid, "")
        checks.append({
            "property_id": pid,
            "quick_cmd": f"./check {pid} --tier quick",
            "thorough_cmd": f"./check {pid} --tier thorough",
            "evidence_file": f"/verif/evidence/{pid}.json",
            "replay_cmd_template": f"./check {pid} --replay {{path}}",
            "engine": "mc",
            "level_claimed": {"category": cat, "text": text, "design_ref": ref},
            "level_note": note,
            "technique": tech,
        })
    na = []
    for pid in ALL:
        if pid not in CHECKS:
            na.append({"property_id": pid, "reason": NOT_APPLICABLE.get(pid, "check not built yet (planned in DESIGN.md section 3); not claimed until it exists")})
    return {
        "version": 1,
        "setup_cmd": "cd /verif && /venv/bin/python -c \"import sys; sys.path[:0]=['/repo','/verif']; import bellows, mc.vloop, mc.explore, mc.env.ref_ash; print('ok')\"",
        "hooks": {
            "guard": "BELLOWS_VERIF",
            "enable": "no source hooks are needed: checks import bellows from /repo's working tree (PYTHONPATH=/repo) and patch module attributes from the harness side",
            "baseline_off_cmd": "cd /repo && /venv/bin/python -m pytest -ra -q -p no:cacheprovider --timeout=900 --continue-on-collection-errors",
            "source_commits": [],
            "add_only": True,
        },
        "engines": [{
            "name": "mc",
            "path": "/verif/mc",
            "serves_properties": [p for p in ALL if p in CHECKS],
            "kind_free_text": "hand-written explicit-state / deviation-bounded stateless explorer running the real bellows code on a hand-stepped asyncio loop with a virtual clock",
        }],
        "checks": checks,
        "not_applicable": na,
        "notes": "All checks run /repo's working tree through PYTHONPATH; see DESIGN.md.",
    }


if __name__ == "__main__":
    m = build()
    with open(os.path.join(VERIF, "MANIFEST.json"), "w") as f:
        json.dump(m, f, indent=1)
    print("wrote MANIFEST.json with", len(m["checks"]), "checks;", len(m["not_applicable"]), "not applicable")
