"""Type-directed value generator for bellows / zigpy wire types.

``variants(ty)`` yields a small finite list of (label, value) for a schema field type:
minimum, maximum, a middle pattern, every defined member boundary and one undefined
value for enums, empty / short / long instances of variable-length types.  ``one(ty, mode)``
returns a single representative."""
from __future__ import annotations

import enum
import inspect

import zigpy.types as zt


def _int_info(ty):
    bits = getattr(ty, "_bits", None)
    if bits is None:
        size = getattr(ty, "_size", None)
        bits = size * 8 if size else None
    signed = bool(getattr(ty, "_signed", False))
    return bits, signed


def is_struct(ty):
    return inspect.isclass(ty) and issubclass(ty, zt.Struct)


def is_enum(ty):
    return inspect.isclass(ty) and issubclass(ty, enum.Enum) and issubclass(ty, int)


def is_flag(ty):
    return inspect.isclass(ty) and issubclass(ty, enum.Flag)


def struct_fields(ty):
    return list(ty.fields)


def int_variants(ty):
    bits, signed = _int_info(ty)
    if bits is None:
        return [("zero", ty(0))]
    if signed:
        lo, hi = -(1 << (bits - 1)), (1 << (bits - 1)) - 1
        mid = -1
    else:
        lo, hi = 0, (1 << bits) - 1
        mid = int("A5" * ((bits + 7) // 8), 16) & hi
    out = [("min", lo), ("max", hi), ("mid", mid)]
    if signed:
        out.append(("zero", 0))
    return [(n, ty(v)) for n, v in out]


def enum_variants(ty):
    bits, _ = _int_info(ty)
    members = list(ty)
    out = []
    if members:
        out.append(("first", members[0]))
        out.append(("last", members[-1]))
        if len(members) > 2:
            out.append(("mid", members[len(members) // 2]))
    if is_flag(ty):
        hi = (1 << bits) - 1 if bits else 0xFF
        try:
            out.append(("allbits", ty(hi)))
        except Exception:
            pass
        try:
            out.append(("nobits", ty(0)))
        except Exception:
            pass
        return out
    defined = {int(m) for m in members}
    hi = (1 << bits) - 1 if bits else 0xFF
    for cand in (hi, hi - 1, 0x7E, 0x5D, 1, 0):
        if cand not in defined:
            try:
                out.append(("undefined", ty(cand)))
            except Exception:
                pass
            break
    return out


def item_type(ty):
    return getattr(ty, "_item_type", None)


def variants(ty, depth=0):
    """List of (label, instance) for the type.  Values are normalised by one serialize/deserialize
    pass so that conditional struct fields (``requires=``) are present exactly when the struct's own
    rule says so; a value that does not survive is dropped."""
    out = []
    for label, v in _variants(ty, depth):
        try:
            b = v.serialize()
            back, rest = ty.deserialize(b)
        except Exception:
            continue
        if rest:
            continue
        out.append((label, back))
    return out


def _variants(ty, depth=0):
    if ty is None:
        return []
    if is_struct(ty):
        return struct_variants(ty, depth)
    if is_enum(ty) or is_flag(ty):
        return enum_variants(ty)
    if inspect.isclass(ty) and issubclass(ty, int):
        return int_variants(ty)
    if inspect.isclass(ty) and issubclass(ty, zt.LVBytes):
        pl = getattr(ty, "_prefix_length", 1)
        longest = 254 if pl == 1 else 300
        return [("empty", ty(b"")), ("one", ty(b"\x7e")), ("mid", ty(bytes(range(16)))), ("long", ty(bytes((i * 7) & 0xFF for i in range(longest))))]
    if inspect.isclass(ty) and issubclass(ty, bytes):
        return [("empty", ty(b"")), ("mid", ty(b"\x01\x02\x03"))]
    if inspect.isclass(ty) and issubclass(ty, zt.FixedList):
        n = ty._length
        it = item_type(ty)
        ivs = variants(it, depth + 1)
        out = []
        for label, v in ivs[:3]:
            out.append((label, ty([v] * n)))
        if ivs and inspect.isclass(it) and issubclass(it, int) and not is_enum(it):
            # a ramp so that byte order inside the list is visible
            try:
                out.append(("ramp", ty([it(i % 251) for i in range(1, n + 1)])))
            except Exception:
                pass
        return out
    if inspect.isclass(ty) and issubclass(ty, zt.LVList):
        it = item_type(ty)
        ivs = variants(it, depth + 1)
        out = [("empty", ty([]))]
        if ivs:
            out.append(("one", ty([ivs[0][1]])))
            out.append(("three", ty([ivs[i % len(ivs)][1] for i in range(3)])))
            out.append(("many", ty([ivs[i % len(ivs)][1] for i in range(40)])))
        return out
    if inspect.isclass(ty) and issubclass(ty, zt.List):
        it = item_type(ty)
        ivs = variants(it, depth + 1)
        out = [("empty", ty([]))]
        if ivs:
            out.append(("one", ty([ivs[0][1]])))
            out.append(("three", ty([ivs[i % len(ivs)][1] for i in range(3)])))
        return out
    raise TypeError(f"gen_values: unsupported type {ty!r}")


def struct_variants(ty, depth=0):
    fields = struct_fields(ty)
    per_field = []
    for f in fields:
        vs = variants(f.type, depth + 1)
        if not vs:
            raise TypeError(f"no variants for field {f.name} of {ty}")
        per_field.append(vs)
    out = []
    for mode in range(3):
        kw = {}
        for f, vs in zip(fields, per_field):
            kw[f.name] = vs[min(mode, len(vs) - 1)][1]
        try:
            out.append((("min", "max", "mid")[mode], ty(**kw)))
        except Exception:
            continue
    if depth == 0:
        # one-field-at-a-time: every variant of every field on the 'mid' background
        base = {f.name: vs[min(2, len(vs) - 1)][1] for f, vs in zip(fields, per_field)}
        for f, vs in zip(fields, per_field):
            for label, v in vs:
                kw = dict(base)
                kw[f.name] = v
                try:
                    out.append((f"{f.name}={label}", ty(**kw)))
                except Exception:
                    continue
    return out


def one(ty, mode="mid"):
    vs = variants(ty)
    for label, v in vs:
        if label == mode:
            return v
    return vs[min(2, len(vs) - 1)][1]


def schema_tuples(schema, sweep=False):
    """Value tuples for a dict schema {name: type}: all-min, all-max, all-mid, and (sweep) every
    variant of every field on the all-mid background.  Returns list of (label, [values])."""
    names = list(schema)
    per = [variants(schema[n]) for n in names]
    out = []
    for mode, label in enumerate(("min", "max", "mid")):
        out.append((label, [vs[min(mode, len(vs) - 1)][1] for vs in per]))
    # one undefined enum value per enum field, every variable-length field empty and maximal
    base = [vs[min(2, len(vs) - 1)][1] for vs in per]
    for i, vs in enumerate(per):
        for lab, v in vs:
            if sweep or lab in ("undefined", "empty", "long", "many", "allbits", "ramp"):
                vals = list(base)
                vals[i] = v
                out.append((f"{names[i]}={lab}", vals))
    return out
