"""Hand-stepped asyncio event loop with a virtual clock.

Only orders that ``BaseEventLoop._run_once`` can produce are generated:

* a *batch* is the set of handles in ``_ready`` when the batch starts, run FIFO;
  handles they schedule with ``call_soon`` run in the next batch;
* between batches the harness may append I/O callbacks (``call_soon``) and then
  fire timers (``fire_timers``), in that order -- the order ``_run_once`` uses for
  selector events and due timers;
* time only moves forward, to the earliest pending deadline; every timer due at
  that instant is appended in deadline order.
"""
from __future__ import annotations

import asyncio
from asyncio import events
import gc
import heapq
import threading


class VLoop(asyncio.BaseEventLoop):
    def __init__(self) -> None:
        super().__init__()
        self._vtime = 0.0
        self.exc_log: list[dict] = []
        self.batches = 0
        self.callbacks_run = 0
        self._entered = False
        self.wakeups = 0  # call_soon_threadsafe wake-ups (C20)

    # -- BaseEventLoop plumbing ------------------------------------------------
    def time(self) -> float:
        return self._vtime

    def _process_events(self, event_list) -> None:  # pragma: no cover
        pass

    def _write_to_self(self) -> None:
        self.wakeups += 1

    def call_exception_handler(self, context) -> None:
        self.exc_log.append(context)

    # -- running-loop management -----------------------------------------------
    def enter(self) -> "VLoop":
        """Make this loop the running loop of the current thread."""
        events._set_running_loop(self)
        self._thread_id = threading.get_ident()
        self._entered = True
        from mc import vclock

        vclock.set_clock(self)
        return self

    def leave(self) -> None:
        if self._entered:
            from mc import vclock

            vclock.clear_clock(self)
            events._set_running_loop(None)
            self._thread_id = None
            self._entered = False

    def __enter__(self):
        return self.enter()

    def __exit__(self, *exc):
        self.leave()

    # -- stepping ----------------------------------------------------------------
    def ready_count(self) -> int:
        return sum(1 for h in self._ready if not h._cancelled)

    def run_batch(self) -> int:
        """Run exactly the handles that are in ``_ready`` now (one loop iteration)."""
        n = len(self._ready)
        ran = 0
        for _ in range(n):
            handle = self._ready.popleft()
            if handle._cancelled:
                continue
            handle._run()
            ran += 1
        handle = None
        self.batches += 1
        self.callbacks_run += ran
        return ran

    def run_one(self) -> bool:
        """Run a single ready handle (used by the two-loop explorer of C20)."""
        while self._ready:
            handle = self._ready.popleft()
            if handle._cancelled:
                continue
            handle._run()
            self.callbacks_run += 1
            return True
        return False

    def settle(self, max_batches: int = 10000) -> int:
        """Run batches until nothing is ready (no time passes)."""
        n = 0
        while self._ready:
            self.run_batch()
            n += 1
            if n > max_batches:
                raise RuntimeError("settle(): ready queue never drains (livelock)")
        return n

    def _prune(self) -> None:
        while self._scheduled and self._scheduled[0]._cancelled:
            h = heapq.heappop(self._scheduled)
            h._scheduled = False
            self._timer_cancelled_count = max(0, self._timer_cancelled_count - 1)

    def next_deadline(self) -> float | None:
        self._prune()
        if not self._scheduled:
            return None
        return self._scheduled[0]._when

    def pending_timers(self) -> list[float]:
        return sorted(h._when - self._vtime for h in self._scheduled if not h._cancelled)

    def fire_timers(self, upto: float | None = None) -> int:
        """Advance virtual time to the earliest deadline (or ``upto``) and move every
        timer due at that instant into ``_ready`` (deadline order)."""
        when = self.next_deadline()
        if upto is not None:
            if when is None or when > upto:
                self._vtime = max(self._vtime, upto)
                return 0
        if when is None:
            return 0
        if when > self._vtime:
            self._vtime = when
        moved = 0
        while self._scheduled:
            h = self._scheduled[0]
            if h._cancelled:
                heapq.heappop(self._scheduled)
                h._scheduled = False
                continue
            if h._when > self._vtime:
                break
            heapq.heappop(self._scheduled)
            h._scheduled = False
            self._ready.append(h)
            moved += 1
        return moved

    def advance(self, dt: float) -> None:
        """Let ``dt`` virtual seconds pass, firing every timer on the way (each
        distinct deadline in its own loop iteration, followed by settle())."""
        target = self._vtime + dt
        while True:
            when = self.next_deadline()
            if when is None or when > target:
                break
            self.fire_timers()
            self.settle()
        self._vtime = target

    def run_until_idle(self, horizon: float, max_iter: int = 100000) -> None:
        """Default policy without environment: settle, then fire timers, until no
        timers remain or virtual time would pass ``horizon``."""
        n = 0
        while True:
            self.settle()
            when = self.next_deadline()
            if when is None or when > horizon:
                return
            self.fire_timers()
            n += 1
            if n > max_iter:
                raise RuntimeError("run_until_idle(): too many iterations")

    # -- teardown ----------------------------------------------------------------
    def escaped_callback_exceptions(self, start: int = 0) -> list[str]:
        """Exceptions that escaped from a loop callback (a protocol callback such as data_received / connection_lost, a done
        callback, a call_soon'ed function) since log position ``start``.  GC-timed reports ("... was never retrieved") are not
        included: when they appear is not deterministic."""
        out = []
        for ctx in self.exc_log[start:]:
            msg = str(ctx.get("message", ""))
            exc = ctx.get("exception")
            if exc is not None and msg.startswith("Exception in callback"):
                out.append(f"{type(exc).__name__}: {exc} ({msg[:90]})")
        return out

    def drain_exc_log(self) -> list[dict]:
        gc.collect(1)
        return self.exc_log

    def shutdown(self) -> None:
        """Cancel what is left so that nothing is reported at interpreter exit."""
        try:
            for task in asyncio.all_tasks(self):
                task.cancel()
            for _ in range(50):
                if not self._ready:
                    break
                self.run_batch()
        except Exception:
            pass
        self._ready.clear()
        for h in self._scheduled:
            h._scheduled = False
        self._scheduled.clear()
        self.leave()
        self._closed = True
