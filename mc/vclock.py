"""Process-wide ownership of the monotonic clock.

bellows reads ``time.monotonic()`` (round-trip measurement in ash.py, command timing in ezsp/protocol.py).  The harness used to
replace the ``time`` attribute of those two modules only, which a harmless refactor (``from time import monotonic``, a new module
that measures time) silently escapes -- the run then depends on the wall clock.  Importing this module *before bellows* installs a
trampoline as ``time.monotonic`` (and ``perf_counter``): on the thread that currently owns a virtual loop it returns that loop's
virtual time, everywhere else the real clock.  Standard-library modules that bind the function at import (threading,
multiprocessing, selectors, concurrent.futures, queue) are imported first so that they keep the real one.
"""
from __future__ import annotations

import asyncio  # noqa: F401
import concurrent.futures  # noqa: F401
import multiprocessing  # noqa: F401
import multiprocessing.pool  # noqa: F401
import queue  # noqa: F401
import selectors  # noqa: F401
import threading
import time as _time

_real_monotonic = _time.monotonic
_real_perf = _time.perf_counter
_owner = {}  # thread id -> loop whose virtual time rules on that thread


def set_clock(loop) -> None:
    _owner[threading.get_ident()] = loop


def clear_clock(loop=None) -> None:
    tid = threading.get_ident()
    if loop is None or _owner.get(tid) is loop:
        _owner.pop(tid, None)


def _vmonotonic() -> float:
    lp = _owner.get(threading.get_ident())
    if lp is not None:
        return lp._vtime
    return _real_monotonic()


def _vperf() -> float:
    lp = _owner.get(threading.get_ident())
    if lp is not None:
        return lp._vtime
    return _real_perf()


if getattr(_time.monotonic, "__name__", "") != "_vmonotonic":
    _time.monotonic = _vmonotonic
    _time.perf_counter = _vperf
