"""Evidence files, known findings, replay files, exit codes."""
from __future__ import annotations

import hashlib
import json
import os
import re
import sys
import time

VERIF = os.path.dirname(os.path.dirname(os.path.abspath(__file__)))
# (the two overrides exist only for tools/matrix.py, which runs checks against seeded changes and must not touch the real evidence)
EVIDENCE_DIR = os.environ.get("VERIF_EVIDENCE_DIR") or os.path.join(VERIF, "evidence")
REPLAY_DIR = os.environ.get("VERIF_REPLAY_DIR") or os.path.join(VERIF, "replays")
KNOWN_FILE = os.path.join(VERIF, "KNOWN_FINDINGS.txt")


def seed() -> int:
    try:
        return int(os.environ.get("VERIF_SEED", "0"))
    except ValueError:
        return 0


def known_findings(prop: str) -> dict[str, str]:
    """key -> description for `known:` lines of this property."""
    out = {}
    if not os.path.exists(KNOWN_FILE):
        return out
    for line in open(KNOWN_FILE):
        line = line.strip()
        m = re.match(r"known:\s+property=(\S+)\s+key=(\S+)\s*(.*)", line)
        if m and m.group(1) == prop:
            out[m.group(2)] = m.group(3)
    return out


class Violation:
    def __init__(self, key: str, message: str, replay: dict):
        self.key = key  # stable identity of the failing input / call site
        self.message = message
        self.replay = replay


CURRENT = None   # the report of the running check (read by mc.run when a check aborts after it has already found violations)


class Report:
    def __init__(self, prop: str, tier: str, level: str):
        global CURRENT
        CURRENT = self
        self.prop = prop
        self.tier = tier
        self.level = level
        self.t0 = time.time()
        self.coverage: dict = {}
        self.assumptions: list[str] = []
        self.violations: list[Violation] = []
        self.notes: list[str] = []

    def add_violation(self, key: str, message: str, replay: dict) -> None:
        # one entry per key, first (smallest) wins
        for v in self.violations:
            if v.key == key:
                return
        self.violations.append(Violation(key, message, replay))

    def write_replay(self, v: Violation) -> str:
        os.makedirs(REPLAY_DIR, exist_ok=True)
        h = hashlib.sha1(v.key.encode()).hexdigest()[:10]
        path = os.path.join(REPLAY_DIR, f"{self.prop}-{h}.json")
        with open(path, "w") as f:
            json.dump({"property": self.prop, "key": v.key, "expected_violation": v.message, **v.replay}, f, indent=1, default=repr)
        return path

    def finish(self) -> int:
        known = known_findings(self.prop)
        new = [v for v in self.violations if v.key not in known]
        listed = [v for v in self.violations if v.key in known]
        wall = time.time() - self.t0
        cov = dict(self.coverage)
        cov.setdefault("samples", [])
        if not cov["samples"]:
            cov["samples"] = ["(none recorded)"]
        ev = {
            "property_id": self.prop,
            "tier": self.tier,
            "seed": seed(),
            "level": self.level,
            "coverage": cov,
            "assumptions": self.assumptions,
            "wall_s": round(wall, 3),
            "violations": len(new),
            "known_findings_reproduced": [v.key for v in listed],
            "notes": self.notes,
        }
        os.makedirs(EVIDENCE_DIR, exist_ok=True)
        tmp = os.path.join(EVIDENCE_DIR, f".{self.prop}.json.tmp")
        with open(tmp, "w") as f:
            json.dump(ev, f, indent=1, default=repr)
        os.replace(tmp, os.path.join(EVIDENCE_DIR, f"{self.prop}.json"))
        for v in listed:
            print(f"KNOWN-FINDING: property={self.prop} key={v.key} {known[v.key] or v.message}")
        for n, v in enumerate(new):
            if n >= 12:
                print(f"  ... and {len(new) - n} more distinct violation keys (not written out)")
                break
            path = self.write_replay(v)
            print(f"VIOLATION property={self.prop} replay={path}")
            print(f"  key={v.key}")
            print(f"  {v.message}")
        summary = {k: cov[k] for k in cov if k not in ("samples",) and not isinstance(cov[k], (list, dict))}
        print(f"[{self.prop}] tier={self.tier} wall={wall:.1f}s violations={len(new)} known={len(listed)} {json.dumps(summary, default=repr)}")
        sys.stdout.flush()
        return 1 if new else 0
