"""Deviation-bounded stateless search (DB-DFS) and explicit-state search (ES-BFS)
over *real* bellows objects.

World protocol (duck typed)
---------------------------
``build(params) -> world`` creates everything fresh (loop, bellows objects,
environment, monitors).  A world offers:

``done() -> bool``            horizon reached
``enabled() -> list[Choice]`` ordered; index 0 is the default and has cost 0
``apply(i)``                  take choice ``i`` of the list just returned
``finish() -> list[str]``     oracle verdicts for this one execution (violations)
``signature()``               hashable outcome signature (anti-vacuity / distinct count)
``close()``                   tear down
``canon()``                   (ES-BFS only) canonical state

A ``Choice`` is ``(label, cost)`` where label is JSON-able.
"""
from __future__ import annotations

import collections
import dataclasses
import hashlib
import json
import multiprocessing as mp
import os
import time
import traceback
from typing import Any, Callable


class InternalError(Exception):
    """Harness inconsistency -- exit code 2, never a VIOLATION."""


@dataclasses.dataclass
class Execution:
    choices: tuple[int, ...]
    labels: list[Any]
    enabled_counts: list[int]
    costs: list[list[int]]
    violations: list[str]
    signature: Any
    steps: int


def run_one(build: Callable, params: dict, prefix: tuple[int, ...], max_steps: int = 100000) -> Execution:
    """Replay ``prefix`` on a fresh world, then follow defaults to the horizon."""
    w = build(params)
    choices: list[int] = []
    labels: list[Any] = []
    counts: list[int] = []
    costs: list[list[int]] = []
    try:
        i = 0
        while not w.done():
            en = w.enabled()
            if not en:
                raise InternalError(f"no enabled choice but world not done (prefix={prefix}, at {i})")
            if i < len(prefix):
                c = prefix[i]
                if c >= len(en):
                    raise InternalError(
                        f"replay diverged: choice {c} not enabled at step {i} (enabled={en}, prefix={prefix})"
                    )
            else:
                c = 0
                if en[0][1] != 0:
                    raise InternalError(f"default choice has non-zero cost: {en[0]}")
            choices.append(c)
            labels.append(en[c][0])
            counts.append(len(en))
            costs.append([e[1] for e in en])
            w.apply(c)
            i += 1
            if i > max_steps:
                raise InternalError(f"horizon not reached within {max_steps} steps (prefix={prefix})")
        if len(choices) < len(prefix):
            raise InternalError(f"replay diverged: world finished after {len(choices)} steps, prefix has {len(prefix)}")
        violations = list(w.finish())
        sig = w.signature()
    finally:
        w.close()
    return Execution(tuple(choices), labels, counts, costs, violations, sig, len(choices))


def children(ex: Execution, prefix_len: int, bound: int) -> list[tuple[int, ...]]:
    """All one-more-deviation prefixes below ``ex`` that stay within ``bound``."""
    out = []
    cost = 0
    for i in range(len(ex.choices)):
        if i >= prefix_len:
            for alt in range(1, ex.enabled_counts[i]):
                if cost + ex.costs[i][alt] <= bound:
                    out.append(ex.choices[:i] + (alt,))
        cost += ex.costs[i][ex.choices[i]]
    return out


@dataclasses.dataclass
class Stats:
    executions: int = 0
    steps: int = 0
    signatures: collections.Counter = dataclasses.field(default_factory=collections.Counter)
    violations: list = dataclasses.field(default_factory=list)  # (message, params, choices, labels)
    samples: list = dataclasses.field(default_factory=list)
    capped: bool = False
    max_depth: int = 0

    def merge(self, other: "Stats") -> None:
        self.executions += other.executions
        self.steps += other.steps
        self.signatures.update(other.signatures)
        self.violations.extend(other.violations)
        if len(self.samples) < 8:
            self.samples.extend(other.samples[: 8 - len(self.samples)])
        self.capped = self.capped or other.capped
        self.max_depth = max(self.max_depth, other.max_depth)


def _sig_key(sig: Any) -> str:
    if isinstance(sig, str):
        return sig
    return hashlib.sha1(repr(sig).encode()).hexdigest()[:16]


def dfs_subtree(build, params, root: tuple[int, ...], bound: int, deadline: float | None,
                max_exec: int | None = None, max_viol: int = 20) -> Stats:
    st = Stats()
    stack = [root]
    while stack:
        if (deadline is not None and time.time() > deadline) or (max_exec and st.executions >= max_exec):
            st.capped = True
            break
        prefix = stack.pop()
        ex = run_one(build, params, prefix)
        st.executions += 1
        st.steps += ex.steps
        st.max_depth = max(st.max_depth, ex.steps)
        st.signatures[_sig_key(ex.signature)] += 1
        if ex.violations and len(st.violations) < max_viol:
            for v in ex.violations:
                st.violations.append((v, params, list(ex.choices), ex.labels))
        if len(st.samples) < 3 and len(prefix) > 0:
            st.samples.append({"params": _jsonable(params), "choices": list(ex.choices), "labels": ex.labels[:40]})
        stack.extend(reversed(children(ex, len(prefix), bound)))
    return st


def _jsonable(x):
    try:
        json.dumps(x)
        return x
    except TypeError:
        if isinstance(x, dict):
            return {str(k): _jsonable(v) for k, v in x.items()}
        if isinstance(x, (list, tuple)):
            return [_jsonable(v) for v in x]
        return repr(x)


# --- multiprocessing ----------------------------------------------------------

_WORKER_BUILD = None


def _job(args):
    build_ref, params, root, bound, deadline, max_exec = args
    try:
        mod, name = build_ref
        import importlib

        build = getattr(importlib.import_module(mod), name)
        st = dfs_subtree(build, params, root, bound, deadline, max_exec)
        return ("ok", st)
    except InternalError as e:
        return ("internal", f"{e}\n{traceback.format_exc()}")
    except Exception as e:  # harness crash
        return ("internal", f"{type(e).__name__}: {e}\n{traceback.format_exc()}")


def nworkers() -> int:
    try:
        return max(1, int(os.environ.get("VERIF_WORKERS", "0")) or min(16, os.cpu_count() or 1))
    except ValueError:
        return 16


_POOL = None


def pool():
    global _POOL
    if _POOL is None:
        ctx = mp.get_context("fork")
        _POOL = ctx.Pool(nworkers())
    return _POOL


def close_pool():
    global _POOL
    if _POOL is not None:
        _POOL.terminate()   # all results have been consumed on the normal path; on an error path workers may still be spinning
        _POOL.join()
        _POOL = None


def dbdfs(build_ref: tuple[str, str], param_list: list[dict], bound: int, *,
          budget_s: float | None = None, max_exec_per_job: int | None = None,
          split_depth: int = 1, parallel: bool = True) -> Stats:
    """Explore every execution with at most ``bound`` deviations for each params in
    ``param_list``.  The root execution and its first ``split_depth`` levels of
    children are expanded in the parent; the subtrees are farmed to the pool."""
    import importlib

    build = getattr(importlib.import_module(build_ref[0]), build_ref[1])
    deadline = time.time() + budget_s if budget_s else None
    total = Stats()
    jobs = []
    for params in param_list:
        frontier = [()]
        for _level in range(split_depth):
            nxt = []
            for prefix in frontier:
                ex = run_one(build, params, prefix)
                total.executions += 1
                total.steps += ex.steps
                total.max_depth = max(total.max_depth, ex.steps)
                total.signatures[_sig_key(ex.signature)] += 1
                for v in ex.violations:
                    total.violations.append((v, params, list(ex.choices), ex.labels))
                if len(total.samples) < 2:
                    total.samples.append({"params": _jsonable(params), "choices": list(ex.choices), "labels": ex.labels[:40]})
                nxt.extend(children(ex, len(prefix), bound))
            frontier = nxt
            if not frontier:
                break
        for root in frontier:
            jobs.append((build_ref, params, root, bound, deadline, max_exec_per_job))
    if not jobs:
        return total
    if parallel and nworkers() > 1 and len(jobs) > 1:
        chunk = max(1, len(jobs) // (nworkers() * 8))
        results = pool().imap_unordered(_job, jobs, chunksize=chunk)
    else:
        results = map(_job, jobs)
    for kind, res in results:
        if kind != "ok":
            raise InternalError(res)
        total.merge(res)
    # deterministic order of reported violations
    total.violations.sort(key=lambda v: (len(v[2]), repr(v[2]), v[0]))
    return total


# --- explicit-state search ----------------------------------------------------

@dataclasses.dataclass
class Graph:
    states: int = 0
    transitions: int = 0
    violations: list = dataclasses.field(default_factory=list)
    max_depth: int = 0
    closed: bool = True
    samples: list = dataclasses.field(default_factory=list)
    replays: int = 0


def esbfs(build: Callable, params: dict, *, max_states: int | None = None,
          max_depth: int | None = None, budget_s: float | None = None,
          on_transition: Callable | None = None) -> Graph:
    """Breadth-first search over canonical states.  A state is represented by the
    event history that reached it first; every successor is produced by replaying
    ``history + [choice]`` on a fresh world (live Tasks do not deep-copy).

    The world must offer ``canon()``, ``enabled()``, ``apply(i)``, ``step_violations()``
    (violations raised by the last transition / visible in the current state)."""
    g = Graph()
    deadline = time.time() + budget_s if budget_s else None

    def replay(hist):
        w = build(params)
        for c in hist:
            en = w.enabled()
            if c >= len(en):
                w.close()
                raise InternalError(f"ES-BFS replay diverged at {hist}")
            w.apply(c)
        g.replays += 1
        return w

    w0 = replay(())
    seen = {w0.canon(): ()}
    for v in w0.step_violations():
        g.violations.append((v, params, [], []))
    w0.close()
    frontier = collections.deque([()])
    while frontier:
        hist = frontier.popleft()
        if max_depth is not None and len(hist) >= max_depth:
            g.closed = False
            continue
        if (deadline and time.time() > deadline) or (max_states and len(seen) >= max_states):
            g.closed = False
            break
        w = replay(hist)
        n = len(w.enabled())
        labels0 = [e[0] for e in w.enabled()]
        w.close()
        for c in range(n):
            w = replay(hist)
            en = w.enabled()
            if [e[0] for e in en] != labels0:
                w.close()
                raise InternalError(f"nondeterministic enabled set at {hist}: {labels0} vs {[e[0] for e in en]}")
            src = w.canon() if on_transition else None
            w.apply(c)
            g.transitions += 1
            viol = w.step_violations()
            k = w.canon()
            if on_transition:
                on_transition(src, en[c][0], k)
            w.close()
            for v in viol:
                if len(g.violations) < 50:
                    g.violations.append((v, params, list(hist) + [c], labels0[c]))
            if k not in seen:
                seen[k] = hist + (c,)
                g.max_depth = max(g.max_depth, len(hist) + 1)
                frontier.append(hist + (c,))
                if len(g.samples) < 5:
                    g.samples.append({"history": list(hist) + [c], "last": _jsonable(labels0[c]), "state": repr(k)[:200]})
    g.states = len(seen)
    return g


# --- parallel, level-synchronous explicit-state search -------------------------

def canon_digest(k) -> str:
    return hashlib.sha1(repr(k).encode()).hexdigest()


def _expand(args):
    """Worker: replay ``hist`` on a fresh world and take every enabled choice once (each on
    its own fresh replay; the first child continues on the replayed world)."""
    build_ref, params, hist = args
    try:
        import importlib

        build = getattr(importlib.import_module(build_ref[0]), build_ref[1])

        def replay():
            w = build(params)
            for c in hist:
                en = w.enabled()
                if c >= len(en):
                    w.close()
                    raise InternalError(f"ES-BFS replay diverged at {hist}: choice {c} of {len(en)}")
                w.apply(c)
            return w

        w = replay()
        en0 = w.enabled()
        labels0 = [e[0] for e in en0]
        out = []
        for c in range(len(en0)):
            if c > 0:
                w = replay()
                labels = [e[0] for e in w.enabled()]
                if labels != labels0:
                    w.close()
                    raise InternalError(f"nondeterministic enabled set at {hist}: {labels0} vs {labels}")
            w.apply(c)
            viol = list(w.step_violations())
            done = w.done()
            if done:
                viol += list(w.finish())
            sig = w.signature() if done and hasattr(w, "signature") else None
            out.append((c, labels0[c], canon_digest(w.canon()), viol, done, sig))
            w.close()
        return ("ok", hist, out)
    except InternalError as e:
        return ("internal", hist, f"{e}\n{traceback.format_exc()}")
    except Exception as e:
        return ("internal", hist, f"{type(e).__name__}: {e}\n{traceback.format_exc()}")


def esbfs_par(build_ref: tuple[str, str], params: dict, *, max_states: int | None = None,
              max_depth: int | None = None, budget_s: float | None = None, parallel: bool = True) -> Graph:
    """Level-synchronous BFS over canonical states; the frontier of each level is expanded by the
    worker pool.  Violating and done states are not expanded.  Deterministic for any worker count
    (results are processed in history order)."""
    import importlib

    build = getattr(importlib.import_module(build_ref[0]), build_ref[1])
    g = Graph()
    g.signatures = collections.Counter()
    g.done_states = 0
    deadline = time.time() + budget_s if budget_s else None
    w0 = build(params)
    seen = {canon_digest(w0.canon())}
    for v in w0.step_violations():
        g.violations.append((v, params, [], []))
    w0.close()
    frontier = [()]
    depth = 0
    while frontier:
        if max_depth is not None and depth >= max_depth:
            g.closed = False
            break
        if (deadline and time.time() > deadline) or (max_states and len(seen) >= max_states):
            g.closed = False
            break
        jobs = [(build_ref, params, h) for h in frontier]
        if parallel and nworkers() > 1 and len(jobs) > 4:
            results = list(pool().imap_unordered(_expand, jobs, chunksize=max(1, len(jobs) // (nworkers() * 4))))
        else:
            results = [_expand(j) for j in jobs]
        results.sort(key=lambda r: r[1])
        nxt = []
        for kind, hist, res in results:
            if kind != "ok":
                raise InternalError(res)
            g.replays += len(res)
            for c, label, dig, viol, done, sig in res:
                g.transitions += 1
                for v in viol:
                    if len(g.violations) < 200:
                        g.violations.append((v, params, list(hist) + [c], label))
                if dig in seen:
                    continue
                seen.add(dig)
                g.max_depth = max(g.max_depth, len(hist) + 1)
                if done:
                    g.done_states += 1
                    if sig is not None:
                        g.signatures[_sig_key(sig)] += 1
                if len(g.samples) < 4 and len(hist) >= 3:
                    g.samples.append({"history": list(hist) + [c], "last": _jsonable(label)})
                if not done and not viol:
                    nxt.append(hist + (c,))
        frontier = nxt
        depth += 1
    g.states = len(seen)
    return g
