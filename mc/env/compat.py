"""Back-fill of ``zigpy.util.Requests`` (removed in zigpy 2.x) so that
``bellows.zigbee.application.ControllerApplication`` at this commit can be constructed with the zigpy
installed in /venv.  Semantics are those of the zigpy releases this bellows commit was written against
(zigpy 0.6x ``zigpy/util.py``): a dict of pending requests; ``new(tag)`` is a context manager that registers a
fresh future under ``tag`` (duplicate tag -> ControllerException), and on exit removes the tag and cancels
the future."""
from __future__ import annotations

import asyncio


def install() -> None:
    import zigpy.exceptions
    import zigpy.util

    if hasattr(zigpy.util, "Requests"):
        return

    class Request:
        """Request context manager."""

        def __init__(self, pending: dict, sequence) -> None:
            self._pending = pending
            self._result = asyncio.get_running_loop().create_future()
            self._sequence = sequence

        @property
        def result(self) -> asyncio.Future:
            return self._result

        @property
        def sequence(self):
            return self._sequence

        def __enter__(self):
            self._pending[self.sequence] = self
            return self

        def __exit__(self, exc_type, exc_value, exc_traceback):
            self._pending.pop(self.sequence)
            self.result.cancel()
            return False

    class Requests(dict):
        def new(self, sequence) -> Request:
            if sequence in self:
                raise zigpy.exceptions.ControllerException(f"duplicate {sequence} TSN")
            return Request(self, sequence)

    zigpy.util.Request = Request
    zigpy.util.Requests = Requests
