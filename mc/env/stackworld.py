"""The whole real stack -- EZSP -> Gateway (ThreadsafeProxy, same loop) -> AshProtocol -> fake serial
transport -- joined by two FIFO lines to a simulated NCP made of the reference ASH endpoint and a
framing-aware EZSP simulator.  Used by C09 (bring-up) and C10 (failure at any moment)."""
from __future__ import annotations

import asyncio

from mc.env import ezspenv, ref_ash
from mc.env.ashworld import FakeTransport, patch_time
from mc.env.ref_endpoint import RefEndpoint
from mc.vloop import VLoop

RST_WIRE = bytes.fromhex("1ac038bc7e")


class NcpEzsp:
    """EZSP side of the simulated NCP: legacy framing until the version handshake, then the NCP's own layout.
    Wrongly framed requests are recorded and left unanswered."""

    def __init__(self, version, submit, clock):
        import bellows.types as t

        self.t = t
        self.version = version
        self.cls = ezspenv.handler_class(version if version in ezspenv.VERSIONS else 14)
        self.by_id = {cid: (name, tx, rx) for name, (cid, tx, rx) in self.cls.COMMANDS.items()}
        self.submit = submit
        self.clock = clock
        self.negotiated = False
        self.requests = []       # (time, framing, name, args)
        self.misframed = []      # (time, raw, why)
        self.first_after_reset = []   # raw bytes of the first request after each reset
        self._expect_first = True
        self.last_seq = 0xFF
        self.config = {}
        self.silent = False
        self.handlers = {
            "getConfigurationValue": lambda a: [t.EzspStatus.SUCCESS, self.config.get(int(a["configId"]), 0)],
            "setConfigurationValue": self._set_cfg,
            "getValue": lambda a: [t.EzspStatus.SUCCESS, b"\x00"],
            "setValue": lambda a: [t.EzspStatus.SUCCESS],
            "nop": lambda a: [],
            "getEui64": lambda a: [t.EUI64(bytes(range(8)))],
            "getNodeId": lambda a: [0x0000],
            "echo": lambda a: [a["data"]],
        }

    def _set_cfg(self, a):
        self.config[int(a["configId"])] = int(a["value"])
        return [self.t.EzspStatus.SUCCESS]

    def rebooted(self):
        self.negotiated = False
        self._expect_first = True
        self.last_seq = 0xFF

    def on_frame(self, data: bytes):
        if self.silent:
            return
        now = self.clock()
        if self._expect_first:
            self._expect_first = False
            self.first_after_reset.append(bytes(data))
        # legacy version query: [seq, 0x00, 0x00, desired]
        if not self.negotiated:
            if len(data) == 4 and data[1] == 0x00 and data[2] == 0x00:
                seq, desired = data[0], data[3]
                self.requests.append((now, "legacy", "version", {"desiredProtocolVersion": desired}))
                self.last_seq = seq
                self.submit(bytes([seq, 0x80, 0x00, self.version & 0xFF, 0x02, 0x30, 0x74]))
                if ezspenv.layout(self.version) == "v4":
                    self.negotiated = True
                return
            hdr = ezspenv.dec_hdr(self.version, data)
            if hdr is not None and self.by_id.get(hdr[1], ("",))[0] == "version" and ezspenv.layout(self.version) != "v4":
                seq, fid, payload = hdr
                desired = payload[0] if payload else None
                self.requests.append((now, "own", "version", {"desiredProtocolVersion": desired}))
                if desired == self.version:
                    self.negotiated = True
                self.last_seq = seq
                self.submit(ezspenv.enc_response_hdr(self.version, seq, fid) + bytes([self.version & 0xFF, 0x02, 0x30, 0x74]))
                return
            self.misframed.append((now, bytes(data), "request before the version handshake completed"))
            return
        hdr = ezspenv.dec_hdr(self.version, data)
        if hdr is None:
            self.misframed.append((now, bytes(data), f"not in the {ezspenv.layout(self.version)} layout of EZSP v{self.version}"))
            return
        seq, fid, payload = hdr
        ent = self.by_id.get(fid)
        if ent is None:
            self.misframed.append((now, bytes(data), f"unknown frame ID {fid:#x}"))
            return
        name, tx, rx = ent
        try:
            args, rest = self.t.deserialize_dict(payload, tx) if isinstance(tx, dict) else ({}, b"")
        except Exception as e:  # noqa
            self.misframed.append((now, bytes(data), f"arguments of {name} do not decode: {e}"))
            return
        self.requests.append((now, "own", name, args))
        if name == "version":
            vals = [self.version & 0xFF, 0x02, 0x7430]
        else:
            h = self.handlers.get(name)
            vals = h(args) if h else None
        if vals is None:
            return
        self.last_seq = seq
        self.submit(ezspenv.enc_response_hdr(self.version, seq, fid) + ezspenv.encode_values(rx, vals))


class StackWorld:
    def __init__(self, version, path="/dev/ttyFAKE", window=1, spontaneous=None):
        import zigpy.config as zc

        import bellows.ezsp
        import bellows.uart

        self.version = version
        self.loop = VLoop().enter()
        patch_time(self.loop)
        self.h2n: list[bytes] = []
        self.n2h: list[bytes] = []
        self.wire_log = []      # (time, dir, bytes)
        self.tr = None
        self.proto = None
        world = self

        async def fake_create_serial_connection(loop, protocol_factory, url=None, **kw):
            proto = protocol_factory()
            tr = FakeTransport(world.loop, proto)
            tr.on_write = world._host_wrote
            world.tr, world.proto = tr, proto
            world.serial_kwargs = dict(kw, url=url)
            world.loop.call_soon(proto.connection_made, tr)
            return tr, proto

        self._orig_csc = bellows.uart.zigpy.serial.create_serial_connection
        bellows.uart.zigpy.serial.create_serial_connection = fake_create_serial_connection
        self.ash = RefEndpoint(window=window)
        self.ncp = NcpEzsp(version, self.ash.submit, self.loop.time)
        self.ezsp = bellows.ezsp.EZSP({zc.CONF_DEVICE_PATH: path, zc.CONF_DEVICE_BAUDRATE: 115200, zc.CONF_DEVICE_FLOW_CONTROL: None})
        self.app_events = []
        self.lost = False
        self.ncp_up_seen = 0
        self.resets_seen = 0
        if spontaneous == "early":
            self.n2h.append(ref_ash.wire(ref_ash.enc_rstack(0x0B)))
        self.spontaneous = spontaneous

    # -- wiring --------------------------------------------------------------------------------
    def _host_wrote(self, data: bytes):
        self.wire_log.append((self.loop.time(), "h2n", bytes(data)))
        if not self.lost:
            self.h2n.append(bytes(data))

    def register_app_callback(self):
        self.ezsp.add_callback(lambda name, args: self.app_events.append((self.loop.time(), name, args)))

    def _ncp_process(self):
        # payloads the NCP's ASH layer handed up are EZSP requests
        while self.ncp_up_seen < len(self.ash.up):
            self.ncp.on_frame(self.ash.up[self.ncp_up_seen])
            self.ncp_up_seen += 1
        # an RST makes the NCP reboot
        while self.resets_seen < len(self.ash.reset_log):
            if self.ash.reset_log[self.resets_seen] == "rst":
                self.ncp.rebooted()
                self.ash.up.clear()
                self.ncp_up_seen = 0
                if self.spontaneous == "late" and self.resets_seen == 0:
                    # a spontaneous start-up RSTACK that was still on its way when the host reset the NCP
                    self.ash.out.insert(0, ref_ash.wire(ref_ash.enc_rstack(0x0B)))
            self.resets_seen += 1
        if self.ash.out:
            for f in self.ash.out:
                self.wire_log.append((self.loop.time(), "n2h", bytes(f)))
            self.n2h.extend(self.ash.out)
            del self.ash.out[:]

    # -- events --------------------------------------------------------------------------------
    def deliver_h2n(self, fault="ok"):
        frame = self.h2n[0]
        if fault != "dup":
            self.h2n.pop(0)
        if fault == "drop":
            return
        if fault == "corrupt":
            frame = corrupt(frame)
        self.ash.feed(frame)
        self._ncp_process()

    def deliver_n2h(self, fault="ok"):
        frame = self.n2h[0]
        if fault != "dup":
            self.n2h.pop(0)
        if fault == "drop":
            return
        if fault == "corrupt":
            frame = corrupt(frame)
        if fault == "dup2":
            frame = bytes(frame) + bytes(frame)     # the duplicate arrives in the same read
        if self.proto is not None and not self.lost and not self.tr.closing:
            # (a transport that was closed or lost its port delivers nothing more)
            self.loop.call_soon(self.proto.data_received, frame)
        self.loop.settle()

    def host_timers(self):
        self.loop.fire_timers()
        self.loop.settle()

    def ncp_timeout(self):
        self.ash.on_timeout()
        self._ncp_process()

    def port_error(self, exc):
        self.lost = True
        self.loop.call_soon(self.tr.abort_with, exc)
        self.loop.settle()

    def eof(self):
        self.lost = True

        def _eof():
            keep = self.proto.eof_received()
            if not keep:
                self.tr.close()
        self.loop.call_soon(_eof)
        self.loop.settle()

    def close(self):
        import bellows.uart

        bellows.uart.zigpy.serial.create_serial_connection = self._orig_csc
        self.loop.shutdown()


def corrupt(wire: bytes) -> bytes:
    body = wire[:-1]
    pre = b""
    while body[:1] == bytes([ref_ash.CAN]):
        pre += body[:1]
        body = body[1:]
    try:
        raw = bytearray(ref_ash.unstuff(body))
    except ref_ash.BadEscape:
        # the sender stuffed the frame wrongly (a defect the checks report elsewhere): damage a raw byte instead
        b = bytearray(body)
        b[len(b) // 2] ^= 0x04
        return pre + bytes(b) + bytes([ref_ash.FLAG])
    raw[min(1, len(raw) - 1)] ^= 0x04
    return pre + ref_ash.stuff(bytes(raw)) + bytes([ref_ash.FLAG])
