"""Reference ASH endpoint written from UG101 (independent of bellows.ash): sliding-window sender
(window 1..3) with go-back-N retransmission and the reTx flag, receiver with the reject condition,
ackNum range check, RST -> RSTACK.  Time is not modelled: the retransmission timer is an event the
explorer fires (``on_timeout``), which over-approximates every real timing.

The endpoint is used as the NCP opposite the real bellows host, and -- two instances against each
other -- to validate itself under the same explorer and oracle (mc/checks/c01.py, self-check)."""
from __future__ import annotations

from mc.env import ref_ash


class RefEndpoint:
    def __init__(self, window=1, max_timeouts=6, name="ncp", nak_bad=True):
        self.name = name
        self.nak_bad = nak_bad              # NAK a frame that fails the CRC / escape check (UG101: sets the reject condition)
        self.window = window
        self.max_timeouts = max_timeouts
        self.dec = ref_ash.RefDecoder()
        self.out: list[bytes] = []          # frames (wire bytes incl. flag) to put on the line
        self.up: list[bytes] = []           # payloads handed to the upper layer
        self.completed: list[bytes] = []    # own payloads acknowledged by the peer ("send completed")
        self.reset_log = []
        self.reset()

    def reset(self):
        self.frm_tx = 0                     # number of the next new DATA frame
        self.frm_rx = 0                     # next expected
        self.unacked: list[tuple[int, bytes]] = []
        self.queue: list[bytes] = []
        self.reject = False
        self.timeouts = 0
        self.failed = False

    # -- upper layer ----------------------------------------------------------------------
    def submit(self, payload: bytes):
        self.queue.append(payload)
        self._pump()

    def busy(self):
        return bool(self.unacked or self.queue)

    # -- transmit -------------------------------------------------------------------------
    def _emit(self, frame: bytes):
        self.out.append(ref_ash.wire(frame))

    def _pump(self):
        while not self.failed and self.queue and len(self.unacked) < self.window:
            p = self.queue.pop(0)
            frm = self.frm_tx
            self.frm_tx = (self.frm_tx + 1) % 8
            self.unacked.append((frm, p))
            self._emit(ref_ash.enc_data(frm, 0, self.frm_rx, p))

    def _retransmit(self):
        for frm, p in self.unacked:
            self._emit(ref_ash.enc_data(frm, 1, self.frm_rx, p))

    def timer_armed(self):
        return bool(self.unacked) and not self.failed

    def on_timeout(self):
        """t_rx_ack expired for the oldest unacknowledged frame."""
        if not self.timer_armed():
            return
        self.timeouts += 1
        if self.timeouts >= self.max_timeouts:
            self.failed = True
            self._emit(ref_ash.enc_error(0x51))
            return
        self._retransmit()

    def _ack(self, ack_num: int) -> bool:
        """Apply an ackNum.  Valid values acknowledge a prefix of the unacknowledged frames."""
        if not self.unacked:
            return ack_num == self.frm_tx
        oldest = self.unacked[0][0]
        j = (ack_num - oldest) % 8
        if j > len(self.unacked):
            return False                    # out of range: ignored
        for _ in range(j):
            frm, p = self.unacked.pop(0)
            self.completed.append(p)
        if j:
            self.timeouts = 0
        self._pump()
        return True

    # -- receive --------------------------------------------------------------------------
    def feed(self, data: bytes):
        for b in data:
            for ev in self.dec.feed(b):
                if ev[0] == "frame":
                    self._frame(ev[1])
                elif self.nak_bad and not self.failed and not self.reject:
                    self.reject = True
                    self._emit(ref_ash.enc_nak(self.frm_rx))
                # (with nak_bad off an undecodable frame is dropped silently and the peer recovers by timeout)

    def _frame(self, d):
        kind = d[0]
        if kind == "RST":
            self.reset()
            self.reset_log.append("rst")
            self._emit(ref_ash.enc_rstack(0x0B))
            return
        if self.failed:
            return
        if kind == "DATA":
            _, frm, retx, ack, payload = d
            self._ack(ack)
            if frm == self.frm_rx:
                self.frm_rx = (self.frm_rx + 1) % 8
                self.reject = False
                self.up.append(payload)
                self._emit(ref_ash.enc_ack(self.frm_rx))
            elif retx:
                self._emit(ref_ash.enc_ack(self.frm_rx))
            elif not self.reject:
                self.reject = True
                self._emit(ref_ash.enc_nak(self.frm_rx))
        elif kind == "ACK":
            self._ack(d[3])
        elif kind == "NAK":
            if self._ack(d[3]) and self.unacked:
                self._retransmit()
        elif kind in ("RSTACK", "ERROR"):
            self.reset_log.append((kind, d[2]))

    def state(self):
        return (self.frm_tx, self.frm_rx, tuple(f for f, _ in self.unacked), len(self.queue), self.reject, self.timeouts, self.failed)
