"""Real ``Gateway`` + real ``AshProtocol`` on a fake transport, stepped one event-loop
iteration at a time.  Used by C11 (application = recorder) and as a base for C10."""
from __future__ import annotations

import asyncio

from mc.env import ref_ash
from mc.env.ashworld import FakeTransport, patch_time, split_wire
from mc.vloop import VLoop


class AppRecorder:
    """Plays the role EZSP plays for Gateway."""

    def __init__(self, clock):
        self.clock = clock
        self.events: list[tuple] = []

    def frame_received(self, data):
        self.events.append(("frame", self.clock(), bytes(data)))

    def enter_failed_state(self, code):
        self.events.append(("failed", self.clock(), int(code)))

    def connection_lost(self, exc):
        self.events.append(("lost", self.clock(), repr(exc)))


class GwWorld:
    def __init__(self):
        import bellows.ash as ash
        import bellows.uart as uart

        self.loop = VLoop().enter()
        patch_time(self.loop)
        self.app = AppRecorder(self.loop.time)
        self.gw = uart.Gateway(self.app)
        self.proto = ash.AshProtocol(self.gw)
        self.tr = FakeTransport(self.loop, self.proto)
        self.proto.connection_made(self.tr)
        self.lost = False
        # reference counters (what a conforming peer believes)
        self.ref_rx = 0   # next frame number the host expects from the NCP
        self.ref_tx = 0   # frame number the host's next new DATA frame must carry
        self.io_log: list[tuple] = []

    # -- I/O callbacks (appended to _ready; they run in the next batch) -----------------
    def io_bytes(self, data: bytes, tag=None):
        if self.lost:
            return
        self.io_log.append((self.loop.time(), "rx", tag))
        self.loop.call_soon(self.proto.data_received, data)

    def io_frame(self, frame: bytes, tag=None):
        self.io_bytes(ref_ash.wire(frame), tag)

    def io_port_error(self, exc):
        if self.lost:
            return
        self.lost = True
        self.io_log.append((self.loop.time(), "port_error", repr(exc)))
        self.loop.call_soon(self.tr.abort_with, exc)

    def io_eof(self):
        if self.lost:
            return
        self.lost = True
        self.io_log.append((self.loop.time(), "eof", None))

        def _eof():
            # what a stream transport does on EOF: eof_received(); falsy result -> close
            keep = self.proto.eof_received()
            if not keep:
                self.tr.close()

        self.loop.call_soon(_eof)

    # -- helpers ------------------------------------------------------------------------
    def writes_since(self, n):
        return [(t, split_wire(d), d) for t, d in self.tr.writes[n:]]

    def prior_traffic(self, n_tx: int, n_rx: int):
        """Leave the counters at (n_tx mod 8, n_rx mod 8) by real traffic."""
        for k in range(n_rx):
            self.io_frame(ref_ash.enc_data(self.ref_rx, 0, self.ref_tx, bytes([0x10, k, 0x20, 0x30])), "data")
            self.ref_rx = (self.ref_rx + 1) % 8
            self.loop.settle()
        for k in range(n_tx):
            task = self.loop.create_task(self.gw.send_data(bytes([0x40, k, 0x41, 0x42])))
            self.loop.settle()
            self.ref_tx = (self.ref_tx + 1) % 8
            self.io_frame(ref_ash.enc_ack(self.ref_tx), "ack")
            self.loop.settle()
            if not task.done() or task.exception() is not None:
                raise RuntimeError("prior traffic: send did not complete")

    def close(self):
        self.loop.shutdown()
