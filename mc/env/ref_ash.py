"""Independent ASH codec and reference receiver, written from UG101.

Shares no code and no table with ``bellows.ash``: CRC-CCITT is computed bit by
bit, the randomisation sequence from the LFSR rule, control bytes from the field
layout of UG101 section 2.  Anchored to the spec by literal vectors (self_test).
"""
from __future__ import annotations

FLAG, ESC, XON, XOFF, SUB, CAN = 0x7E, 0x7D, 0x11, 0x13, 0x18, 0x1A
RESERVED = (FLAG, ESC, XON, XOFF, SUB, CAN)


def crc16(data: bytes) -> int:
    """CRC-CCITT: polynomial x^16+x^12+x^5+1, initial value 0xFFFF, msb first."""
    reg = 0xFFFF
    for byte in data:
        reg ^= byte << 8
        for _ in range(8):
            if reg & 0x8000:
                reg = ((reg << 1) ^ 0x1021) & 0xFFFF
            else:
                reg = (reg << 1) & 0xFFFF
    return reg


def with_crc(body: bytes) -> bytes:
    c = crc16(body)
    return bytes(body) + bytes([c >> 8, c & 0xFF])


def lfsr(n: int) -> list[int]:
    out = []
    r = 0x42
    for _ in range(n):
        out.append(r)
        if r & 1:
            r = (r >> 1) ^ 0xB8
        else:
            r = r >> 1
    return out


def randomize(payload: bytes) -> bytes:
    seq = lfsr(len(payload))
    return bytes(p ^ s for p, s in zip(payload, seq))


def stuff(raw: bytes) -> bytes:
    out = bytearray()
    for b in raw:
        if b in RESERVED:
            out.append(ESC)
            out.append(b ^ 0x20)
        else:
            out.append(b)
    return bytes(out)


class BadEscape(Exception):
    pass


def unstuff(raw: bytes, strict: bool = True) -> bytes:
    """Inverse of stuff().  ``strict``: an escape followed by a byte whose
    complement is not reserved is an error (the property's "invalid escape")."""
    out = bytearray()
    esc = False
    for b in raw:
        if esc:
            v = b ^ 0x20
            if strict and v not in RESERVED:
                raise BadEscape(hex(b))
            out.append(v)
            esc = False
        elif b == ESC:
            esc = True
        else:
            out.append(b)
    return bytes(out)


# --- frame encoders (unstuffed, with CRC) ---------------------------------------

def data_ctrl(frm: int, retx: int, ack: int) -> int:
    return ((frm & 7) << 4) | ((1 if retx else 0) << 3) | (ack & 7)


def enc_data(frm: int, retx: int, ack: int, payload: bytes) -> bytes:
    return with_crc(bytes([data_ctrl(frm, retx, ack)]) + randomize(payload))


def enc_ack(ack: int, nrdy: int = 0, res: int = 0) -> bytes:
    return with_crc(bytes([0x80 | ((res & 1) << 4) | ((nrdy & 1) << 3) | (ack & 7)]))


def enc_nak(ack: int, nrdy: int = 0, res: int = 0) -> bytes:
    return with_crc(bytes([0xA0 | ((res & 1) << 4) | ((nrdy & 1) << 3) | (ack & 7)]))


def enc_rst() -> bytes:
    return with_crc(bytes([0xC0]))


def enc_rstack(code: int, version: int = 2) -> bytes:
    return with_crc(bytes([0xC1, version, code]))


def enc_error(code: int, version: int = 2) -> bytes:
    return with_crc(bytes([0xC2, version, code]))


def wire(frame: bytes) -> bytes:
    """Stuffed frame followed by the flag byte."""
    return stuff(frame) + bytes([FLAG])


# --- frame decoder ----------------------------------------------------------------

def classify(ctrl: int) -> str | None:
    if ctrl & 0x80 == 0:
        return "DATA"
    if ctrl & 0xE0 == 0x80:
        return "ACK"
    if ctrl & 0xE0 == 0xA0:
        return "NAK"
    if ctrl == 0xC0:
        return "RST"
    if ctrl == 0xC1:
        return "RSTACK"
    if ctrl == 0xC2:
        return "ERROR"
    return None


def decode(frame: bytes, *, lenient_len: bool = True):
    """Decode an unstuffed frame.  Returns a tuple or None when the frame must be
    rejected.  ``lenient_len``: do not enforce the spec's data-field length limits
    for DATA (3..128) and the empty data field of ACK/NAK -- zones in which the
    property leaves latitude and which the enumerations do not generate."""
    if len(frame) < 3:
        return None
    body, crc = frame[:-2], frame[-2:]
    c = crc16(body)
    if crc != bytes([c >> 8, c & 0xFF]):
        return None
    ctrl = body[0]
    field = body[1:]
    kind = classify(ctrl)
    if kind is None:
        return None
    if kind == "DATA":
        if not lenient_len and not (3 <= len(field) <= 128):
            return None
        return ("DATA", (ctrl >> 4) & 7, (ctrl >> 3) & 1, ctrl & 7, randomize(field))
    if kind in ("ACK", "NAK"):
        if not lenient_len and field:
            return None
        return (kind, (ctrl >> 4) & 1, (ctrl >> 3) & 1, ctrl & 7)
    if kind == "RST":
        if field:
            return None
        return ("RST",)
    # RSTACK / ERROR
    if len(field) != 2 or field[0] != 0x02:
        return None
    return (kind, field[0], field[1])


class RefDecoder:
    """Byte-at-a-time receive state machine of UG101 section 4.

    feed(byte) returns a list of events: ("frame", decoded) or ("bad", raw)."""

    def __init__(self) -> None:
        self.buf = bytearray()
        self.discard = False

    def feed(self, b: int):
        if b == FLAG:
            if self.discard:
                self.discard = False
                self.buf.clear()
                return []
            raw = bytes(self.buf)
            self.buf.clear()
            if not raw:
                return []
            try:
                frame = unstuff(raw)
            except BadEscape:
                return [("bad", raw)]
            d = decode(frame)
            if d is None:
                return [("bad", raw)]
            return [("frame", d)]
        if self.discard:
            return []
        if b == CAN:
            self.buf.clear()
            return []
        if b == SUB:
            self.buf.clear()
            self.discard = True
            return []
        if b in (XON, XOFF):
            return []
        self.buf.append(b)
        return []


class RefReceiver:
    """Reference host-side receiver: what must be handed up and which ackNum every
    ACK/NAK written back must carry.  Produces an event list:

    ("up", payload) ("reset", code) ("ack", n) ("ack_or_nak", n) ("nak?", n)
    where "ack_or_nak" = exactly one ACK or NAK with number n (statement allows
    either for a DATA frame that is not accepted) and "nak?" = zero or one NAK
    with number n (unparsable frame)."""

    def __init__(self, expected: int = 0) -> None:
        self.dec = RefDecoder()
        self.expected = expected

    def on_frame(self, d):
        kind = d[0]
        if kind == "DATA":
            _, frm, retx, ack, payload = d
            if frm == self.expected:
                self.expected = (self.expected + 1) % 8
                return [("ack", self.expected), ("up", payload)]
            return [("ack_or_nak", self.expected)]
        if kind == "RSTACK":
            self.expected = 0
            return [("reset", d[2])]
        if kind == "ERROR":
            return [("reset", d[2])]
        return []

    def feed(self, data: bytes):
        out = []
        for b in data:
            for ev in self.dec.feed(b):
                if ev[0] == "bad":
                    out.append(("nak?", self.expected))
                else:
                    out.extend(self.on_frame(ev[1]))
        return out


def self_test() -> None:
    # Literal vectors of UG101 (also present in the repository's tests)
    assert wire(enc_rst()) == bytes.fromhex("c038bc7e"), wire(enc_rst()).hex()
    assert wire(enc_rstack(0x02)) == bytes.fromhex("c102029b7b7e")
    assert lfsr(5) == [0x42, 0x21, 0xA8, 0x54, 0x2A]
    # UG101 example: DATA frame, frmNum 2, ackNum 5, EZSP "version" 00 00 00 02:
    # 25 00 00 00 02 1A AD 7E before and 25 42 21 A8 56 A6 09 7E after randomisation
    assert wire(enc_data(2, 0, 5, bytes.fromhex("00000002"))) == bytes.fromhex("254221a856a6097e")
    assert wire(enc_rstack(0x0B)) == bytes.fromhex("c1020b0a527e")
    # ACK frame examples of UG101: 81 60 59 7E (ackNum 1), 8E 91 B6 7E (nRdy, ackNum 6)
    assert wire(enc_ack(1)) == bytes.fromhex("8160597e")
    assert wire(enc_ack(6, nrdy=1)) == bytes.fromhex("8e91b67e")
    # NAK examples: A6 34 DC 7E (ackNum 6), AD 85 B7 7E (nRdy, ackNum 5)
    assert wire(enc_nak(6)) == bytes.fromhex("a634dc7e")
    assert wire(enc_nak(5, nrdy=1)) == bytes.fromhex("ad85b77e")
    # ERROR example C2 02 52 98 DE 7E (version 2, code 0x52)
    assert wire(enc_error(0x52)) == bytes.fromhex("c2025298de7e")
    assert unstuff(stuff(bytes(range(256)))) == bytes(range(256))


self_test()
