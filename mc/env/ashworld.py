"""Shared pieces for worlds built around the real ``bellows.ash.AshProtocol``."""
from __future__ import annotations

import enum

from mc.env import ref_ash
from mc.vloop import VLoop


class VTime:
    """Stands in for the ``time`` module inside bellows modules."""

    def __init__(self, loop: VLoop) -> None:
        self._loop = loop

    def monotonic(self) -> float:
        return self._loop.time()

    def time(self) -> float:
        return self._loop.time()


def patch_time(loop: VLoop) -> None:
    import bellows.ash
    import bellows.ezsp.protocol

    from mc import vclock

    vclock.set_clock(loop)   # time.monotonic() itself is virtual on this thread (covers `from time import monotonic` and new modules)
    vt = VTime(loop)
    for mod in (bellows.ash, bellows.ezsp.protocol):
        if hasattr(mod, "time"):
            mod.time = vt


class FakeTransport:
    """Records writes (with virtual timestamps).  close() behaves like a real
    asyncio transport: ``connection_lost(None)`` is delivered via call_soon."""

    def __init__(self, loop: VLoop | None, protocol=None) -> None:
        self.loop = loop
        self.protocol = protocol
        self.writes: list[tuple[float, bytes]] = []
        self.closing = False
        self.lost_delivered = False
        self.on_write = None
        self.held: list = []

    def now(self) -> float:
        return self.loop.time() if self.loop is not None else 0.0

    def write(self, data) -> None:
        if not isinstance(data, bytes):
            # a mutable buffer: remember the object itself -- a transport that queues what it is given (pyserial-asyncio, any
            # transport under back-pressure) sends it later, so it must not change after the call
            self.held.append((data, bytes(data)))
            del self.held[:-64]
        data = bytes(data)
        self.writes.append((self.now(), data))
        if self.on_write is not None:
            self.on_write(data)

    def is_closing(self) -> bool:
        return self.closing

    def modified_after_write(self) -> list[tuple[bytes, bytes]]:
        """(bytes at the time of the write() call, bytes now) for every mutable object handed to write() that changed since."""
        return [(was, bytes(obj)) for obj, was in self.held if bytes(obj) != was]

    def close(self) -> None:
        if self.closing:
            return
        self.closing = True
        if self.loop is not None and self.protocol is not None:
            self.loop.call_soon(self._lost, None)

    def abort_with(self, exc) -> None:
        """Port error detected by the transport (called from an I/O callback)."""
        if self.closing:
            return
        self.closing = True
        self.loop.call_soon(self._lost, exc)

    def _lost(self, exc) -> None:
        if self.lost_delivered:
            return
        self.lost_delivered = True
        self.protocol.connection_lost(exc)

    def get_extra_info(self, name, default=None):
        return default


class Recorder:
    """Upper layer of AshProtocol (the role ``Gateway`` plays)."""

    def __init__(self, clock=None) -> None:
        self.events: list[tuple] = []
        self.clock = clock

    def _t(self):
        return self.clock() if self.clock else 0.0

    def connection_made(self, transport) -> None:
        self.events.append(("made",))

    def connection_lost(self, exc) -> None:
        self.events.append(("lost", repr(exc)))

    def eof_received(self) -> None:
        self.events.append(("eof",))

    def data_received(self, data: bytes) -> None:
        self.events.append(("up", bytes(data)))

    def reset_received(self, code) -> None:
        self.events.append(("reset", int(code)))

    def error_received(self, code) -> None:
        self.events.append(("error", int(code)))


def split_wire(data: bytes) -> list[tuple]:
    """Decode host-written bytes with the reference decoder.  Returns a list of
    decoded frames, ("bad", raw) for undecodable ones and ("can",) for each CANCEL."""
    dec = ref_ash.RefDecoder()
    out = []
    for b in data:
        if b == ref_ash.CAN:
            out.append(("can",))
        for ev in dec.feed(b):
            out.append(ev[1] if ev[0] == "frame" else ("bad", ev[1]))
    if dec.buf:
        out.append(("partial", bytes(dec.buf)))
    return out


def scalar_state(obj, skip=()) -> tuple:
    """Every scalar attribute of ``obj`` -- used in canonical states so that state
    introduced by a code change is not silently merged away."""
    out = []
    for k in sorted(vars(obj)):
        if k in skip:
            continue
        v = vars(obj)[k]
        if isinstance(v, enum.Enum):
            out.append((k, repr(v)))
        elif isinstance(v, (int, float, bool, str, bytes, type(None))):
            out.append((k, v))
        elif isinstance(v, bytearray):
            out.append((k, bytes(v)))
    return tuple(out)


def diagnostic_attrs(make, drive, bound: int = 16, kinds=(int, float)) -> tuple:
    """Names of numeric attributes that take more than ``bound`` distinct values along a probe run.

    ``make()`` builds a fresh object, ``drive(obj)`` yields after each probe step.  Protocol state proper (3-bit counters,
    small enums, flags) takes a handful of values; an attribute that keeps growing along the probe is a diagnostic counter
    (frames seen, bytes received, last timestamp ...) added by a refactor.  Keeping it in a canonical state would make a closed
    space infinite (the search would never end) and would make "one read vs. two reads" comparisons differ for no behavioural
    reason, so searches that close over ``scalar_state`` drop these names -- the abstraction is listed in the evidence and
    covered by each check's stateless validation runs and long streams, which do not merge states."""
    obj = make()
    seen: dict[str, set] = {}
    for _ in drive(obj):
        for k, v in vars(obj).items():
            if type(v) in kinds:        # bool is excluded on purpose (type(), not isinstance)
                seen.setdefault(k, set()).add(v)
    return tuple(sorted(k for k, vals in seen.items() if len(vals) > bound))
