"""Stateful EZSP NCP simulator for the network-settings round trip (C14).

Non-volatile state: factory / burned / rewritable EUI64, stored network (parameters, security,
frame counters), key table, child table.  Volatile: whether the stack is up, the staged initial
security state and staged frame counters, configuration values.  A reset (``reboot``) keeps the
non-volatile part.  Command semantics follow the EmberZNet API reference as far as the property
needs them; each assumption that is not pinned by the repository's own tests is listed in
``ASSUMPTIONS`` and copied into the evidence file.
"""
from __future__ import annotations

from mc.env.stackworld import NcpEzsp

ASSUMPTIONS = [
    "formNetwork promotes the staged initial security state to the running network; leaveNetwork and tokenFactoryReset erase network, security and child table",
    "the outgoing NWK / APS frame counters are non-volatile tokens of their own: written by setValue while no network is running, kept across leaveNetwork, clearKeyTable and a reboot, "
    "zeroed by formNetwork unless the initial security state carries NO_FRAME_COUNTER_RESET and by tokenFactoryReset unless excludeOutgoingFC is set",
    "getKey / exportKey return the network key with its sequence number and outgoing frame counter, and the (possibly hashed) preconfigured key as trust-centre link key",
    "exportKey: key index 1 of the network key type is the alternate network key (unset: zeros), higher indices and any multi-network index other than 0 fail",
    "getCurrentSecurityState reports GLOBAL_LINK_KEY and the hashed-link-key bits exactly as requested in the initial security state, plus HAVE_TRUST_CENTER_LINK_KEY",
    "key-table reads: index >= configured size -> index-out-of-range, empty slot -> entry-erased / not-found; child-table reads of empty slots -> not-joined",
    "the rewritable EUI64 token (NV3, EZSP v9+) takes effect at once; MFG_CUSTOM_EUI_64 can be burned once; address table is empty",
]


class NetNcp(NcpEzsp):
    def __init__(self, version, submit, clock, *, rewritable_eui64=True, factory_eui64=bytes([0xF0, 1, 2, 3, 4, 5, 6, 7])):
        super().__init__(version, submit, clock)
        t = self.t
        self.rewritable = rewritable_eui64 and version >= 9
        self.factory_eui64 = factory_eui64
        self.nv3_eui64 = None
        self.mfg_eui64 = None
        self.network = None          # dict(params=..., security=..., nwk_fc=..., aps_fc=...)
        self.running = False
        self.key_table = {}          # index -> (eui64 bytes, key bytes)
        self.children = {}           # index -> (eui64 bytes, nwk, type)
        self.staged_security = None
        self.nv_nwk_fc = 0           # frame-counter tokens (non-volatile, independent of the network token)
        self.nv_aps_fc = 0
        self.security_frames = []    # every EmberInitialSecurityState received
        self.eui64_at_form = None
        self.config = {int(t.EzspConfigId.CONFIG_KEY_TABLE_SIZE): 0, int(t.EzspConfigId.CONFIG_ADDRESS_TABLE_SIZE): 8,
                       int(t.EzspConfigId.CONFIG_SECURITY_LEVEL): 5}
        h = self.handlers
        for name in ("getEui64", "getNodeId", "networkState", "networkInit", "networkInitExtended", "formNetwork", "leaveNetwork",
                     "getNetworkParameters", "getKey", "exportKey", "getNetworkKeyInfo", "getCurrentSecurityState",
                     "setInitialSecurityState", "getKeyTableEntry", "exportLinkKeyByIndex", "addOrUpdateKeyTableEntry", "importLinkKey",
                     "clearKeyTable", "tokenFactoryReset", "getChildData", "setChildData", "getMfgToken", "setMfgToken", "getTokenData",
                     "setTokenData", "getValue", "setValue", "getAddressTableRemoteNodeId", "getAddressTableRemoteEui64", "getAddressTableInfo",
                     "setConfigurationValue"):
            if name in self.cls.COMMANDS:
                h[name] = getattr(self, "_" + name)

    # -- helpers ------------------------------------------------------------------------
    _blank_cache = {}

    def blank(self, ty):
        """An all-minimum instance of a struct type (cached; never mutated, only serialised or .replace()d)."""
        if ty not in self._blank_cache:
            from mc import gen_values as gv

            self._blank_cache[ty] = gv.one(ty, "min")
        return self._blank_cache[ty]

    def eui64(self):
        for v in (self.nv3_eui64, self.mfg_eui64):
            if v is not None and v != b"\xff" * 8:
                return v
        return self.factory_eui64

    def st(self, command, kind="ok"):
        t = self.t
        rx = self.cls.COMMANDS[command][2]
        ty = rx["status"] if isinstance(rx, dict) else t.EmberStatus
        if ty is t.sl_Status:
            return {"ok": t.sl_Status.OK, "not_joined": t.sl_Status.NOT_JOINED, "range": t.sl_Status.INVALID_INDEX, "empty": t.sl_Status.NOT_FOUND,
                    "fail": t.sl_Status.FAIL, "state": t.sl_Status.INVALID_STATE, "full": t.sl_Status.FULL}[kind]
        if ty is t.EzspStatus:
            return {"ok": t.EzspStatus.SUCCESS}.get(kind, t.EzspStatus.ERROR_INVALID_ID)
        return {"ok": t.EmberStatus.SUCCESS, "not_joined": t.EmberStatus.NOT_JOINED, "range": t.EmberStatus.INDEX_OUT_OF_RANGE,
                "empty": t.EmberStatus.TABLE_ENTRY_ERASED, "fail": t.EmberStatus.ERR_FATAL, "state": t.EmberStatus.INVALID_CALL,
                "full": t.EmberStatus.TABLE_FULL}[kind]

    def rebooted(self):
        super().rebooted()
        self.running = False
        self.staged_security = None
        t = self.t
        self.config = {int(t.EzspConfigId.CONFIG_KEY_TABLE_SIZE): 0, int(t.EzspConfigId.CONFIG_ADDRESS_TABLE_SIZE): 8,
                       int(t.EzspConfigId.CONFIG_SECURITY_LEVEL): 5}

    def emit(self, name, vals):
        from mc.env import ezspenv

        cid, tx, rx = self.cls.COMMANDS[name]
        self.submit(ezspenv.enc_response_hdr(self.version, self.last_seq, cid, callback=True) + ezspenv.encode_values(rx, vals))

    def _stack_status(self, up):
        t = self.t
        rx = self.cls.COMMANDS["stackStatusHandler"][2]
        if rx["status"] is t.sl_Status:
            v = t.sl_Status.NETWORK_UP if up else t.sl_Status.NETWORK_DOWN
        else:
            v = t.EmberStatus.NETWORK_UP if up else t.EmberStatus.NETWORK_DOWN
        # the callback follows the response of the command that caused it
        self._after = lambda: self.emit("stackStatusHandler", [v])

    _after = None

    def on_frame(self, data):
        self._after = None
        super().on_frame(data)
        if self._after is not None:
            f, self._after = self._after, None
            f()

    # -- commands ---------------------------------------------------------------------------
    def _setConfigurationValue(self, a):
        self.config[int(a["configId"])] = int(a["value"])
        return [self.t.EzspStatus.SUCCESS]

    def _getEui64(self, a):
        return [self.t.EUI64(self.eui64())]

    def _getNodeId(self, a):
        return [0x0000 if self.running else 0xFFFE]

    def _networkState(self, a):
        return [self.t.EmberNetworkStatus.JOINED_NETWORK if self.running else self.t.EmberNetworkStatus.NO_NETWORK]

    def _init(self, cmd):
        if self.network is None:
            return [self.st(cmd, "not_joined")]
        self.running = True
        self._stack_status(True)
        return [self.st(cmd)]

    def _networkInit(self, a):
        return self._init("networkInit")

    def _networkInitExtended(self, a):
        return self._init("networkInitExtended")

    def _formNetwork(self, a):
        if self.running or self.staged_security is None:
            return [self.st("formNetwork", "state")]
        if not (int(self.staged_security.bitmask) & int(self.t.EmberInitialSecurityBitmask.NO_FRAME_COUNTER_RESET)):
            self.nv_nwk_fc = self.nv_aps_fc = 0
        self.network = {"params": a["parameters"], "security": self.staged_security}
        self.eui64_at_form = self.eui64()
        self.running = True
        self._stack_status(True)
        return [self.st("formNetwork")]

    def _leaveNetwork(self, a):
        if not self.running:
            return [self.st("leaveNetwork", "state")]
        self.running = False
        self.network = None
        self.children = {}
        self._stack_status(False)
        return [self.st("leaveNetwork")]

    def _tokenFactoryReset(self, a):
        if not a.get("excludeOutgoingFC"):
            self.nv_nwk_fc = self.nv_aps_fc = 0
        self.network = None
        self.running = False
        self.children = {}
        return []

    def _getNetworkParameters(self, a):
        t = self.t
        if not self.running:
            from mc import gen_values as gv

            return [self.st("getNetworkParameters", "not_joined"), t.EmberNodeType.UNKNOWN_DEVICE, self.blank(t.EmberNetworkParameters)]
        return [self.st("getNetworkParameters"), t.EmberNodeType.COORDINATOR, self.network["params"]]

    def _key_struct(self, which):
        t = self.t
        sec = self.network["security"]
        B = t.EmberKeyStructBitmask
        if which == "network":
            return t.EmberKeyStruct(bitmask=B.KEY_HAS_SEQUENCE_NUMBER | B.KEY_HAS_OUTGOING_FRAME_COUNTER, type=t.EmberKeyType.CURRENT_NETWORK_KEY,
                                    key=sec.networkKey, outgoingFrameCounter=self.nv_nwk_fc, incomingFrameCounter=0,
                                    sequenceNumber=sec.networkKeySequenceNumber, partnerEUI64=t.EUI64(b"\x00" * 8))
        return t.EmberKeyStruct(bitmask=B.KEY_HAS_OUTGOING_FRAME_COUNTER | B.KEY_HAS_PARTNER_EUI64, type=t.EmberKeyType.TRUST_CENTER_LINK_KEY,
                                key=sec.preconfiguredKey, outgoingFrameCounter=self.nv_aps_fc, incomingFrameCounter=0,
                                sequenceNumber=0, partnerEUI64=t.EUI64(b"\xff" * 8))

    key_reads = 0
    refuse_key_read = None       # ordinal of the getKey / exportKey request to answer with a transient failure and a zero key (fault injection)

    def _key_read_refused(self):
        k = self.key_reads
        self.key_reads += 1
        return self.refuse_key_read is not None and k == self.refuse_key_read

    def _getKey(self, a):
        t = self.t
        from mc import gen_values as gv

        if self._key_read_refused():
            return [self.st("getKey", "fail"), self.blank(t.EmberKeyStruct)]
        if not self.running:
            return [self.st("getKey", "not_joined"), self.blank(t.EmberKeyStruct)]
        if a["keyType"] == t.EmberKeyType.CURRENT_NETWORK_KEY:
            return [self.st("getKey"), self._key_struct("network")]
        if a["keyType"] == t.EmberKeyType.TRUST_CENTER_LINK_KEY:
            return [self.st("getKey"), self._key_struct("tclk")]
        return [self.st("getKey", "fail"), self.blank(t.EmberKeyStruct)]

    def _exportKey(self, a):
        t = self.t
        ctx = a["context"]
        rx = self.cls.COMMANDS["exportKey"][2]
        key = t.KeyData(b"\x00" * 16)
        kind = "ok"
        if self._key_read_refused():
            kind = "fail"
        elif not self.running:
            kind = "fail"
        elif int(getattr(ctx, "multi_network_index", 0)) != 0:
            kind = "fail"                                   # single-network NCP: only network index 0 exists
        elif ctx.core_key_type == t.SecurityManagerKeyType.NETWORK and int(ctx.key_index) == 1:
            key = t.KeyData(b"\x00" * 16)                   # the alternate network key (none set): not the current one
        elif ctx.core_key_type == t.SecurityManagerKeyType.NETWORK and int(ctx.key_index) > 1:
            kind = "fail"
        elif ctx.core_key_type == t.SecurityManagerKeyType.NETWORK:
            key = self.network["security"].networkKey
        elif ctx.core_key_type == t.SecurityManagerKeyType.TC_LINK:
            key = self.network["security"].preconfiguredKey
        else:
            kind = "fail"
        vals = {"key": key, "status": self.st("exportKey", kind), "context": ctx}
        return [vals[k] for k in rx]

    def _getNetworkKeyInfo(self, a):
        # sl_zigbee_sec_man_network_key_info_t, packed by hand: bool network_key_set, bool alternate_network_key_set,
        # uint8 network_key_sequence_number, uint8 alt_network_key_sequence_number, uint32 network_key_frame_counter (LE).
        # The alternate key is not set; its sequence-number byte differs from the current key's so that the two cannot be confused.
        import struct as _struct
        from mc.env.ezspenv import RawWire

        if not self.running:
            info = RawWire(_struct.pack("<BBBBI", 0, 0, 0, 0, 0))
        else:
            seq = int(self.network["security"].networkKeySequenceNumber) & 0xFF
            info = RawWire(_struct.pack("<BBBBI", 1, 0, seq, seq ^ 0x5A, int(self.nv_nwk_fc) & 0xFFFFFFFF))
        return [self.st("getNetworkKeyInfo"), info]

    def _getCurrentSecurityState(self, a):
        t = self.t
        if not self.running:
            return [self.st("getCurrentSecurityState", "not_joined"), t.EmberCurrentSecurityState(bitmask=t.EmberCurrentSecurityBitmask(0), trustCenterLongAddress=t.EUI64(b"\x00" * 8))]
        init = int(self.network["security"].bitmask)
        cur = 0x0010 | (init & 0x0004) | (0x0084 if (init & 0x0084) == 0x0084 else 0)
        return [self.st("getCurrentSecurityState"), t.EmberCurrentSecurityState(bitmask=t.EmberCurrentSecurityBitmask(cur), trustCenterLongAddress=t.EUI64(self.eui64()))]

    def _setInitialSecurityState(self, a):
        if self.running:
            return [self.st("setInitialSecurityState", "state")]
        self.staged_security = a["state"]
        self.security_frames.append(a["state"])
        return [self.st("setInitialSecurityState")]

    def _key_table_size(self):
        return self.config.get(int(self.t.EzspConfigId.CONFIG_KEY_TABLE_SIZE), 0)

    def _getKeyTableEntry(self, a):
        t = self.t
        from mc import gen_values as gv

        i = int(a["index"])
        blank = self.blank(t.EmberKeyStruct)
        if i >= self._key_table_size():
            return [self.st("getKeyTableEntry", "range"), blank]
        if i not in self.key_table:
            return [self.st("getKeyTableEntry", "empty"), blank]
        eui, key = self.key_table[i]
        B = t.EmberKeyStructBitmask
        ks = t.EmberKeyStruct(bitmask=B.KEY_HAS_PARTNER_EUI64 | B.KEY_HAS_OUTGOING_FRAME_COUNTER | B.KEY_HAS_INCOMING_FRAME_COUNTER, type=t.EmberKeyType.APPLICATION_LINK_KEY,
                              key=t.KeyData(key), outgoingFrameCounter=0, incomingFrameCounter=0, sequenceNumber=0, partnerEUI64=t.EUI64(eui))
        return [self.st("getKeyTableEntry"), ks]

    def _exportLinkKeyByIndex(self, a):
        t = self.t
        i = int(a["index"])
        rx = self.cls.COMMANDS["exportLinkKeyByIndex"][2]
        B = t.EmberKeyStructBitmask
        meta = t.SecurityManagerAPSKeyMetadata(bitmask=B.KEY_HAS_PARTNER_EUI64, outgoing_frame_counter=0, incoming_frame_counter=0, ttl_in_seconds=0)
        if i >= self._key_table_size() or i not in self.key_table:
            eui, key, kind = b"\x00" * 8, b"\x00" * 16, ("range" if i >= self._key_table_size() else "empty")
        else:
            (eui, key), kind = self.key_table[i], "ok"
        vals = {"eui64": t.EUI64(eui), "plaintext_key": t.KeyData(key), "key_data": meta, "status": self.st("exportLinkKeyByIndex", kind)}
        if "context" in rx:
            from mc import gen_values as gv

            ctx = self.blank(rx["context"]).replace(core_key_type=t.SecurityManagerKeyType.APP_LINK, key_index=i, eui64=t.EUI64(eui))
            vals["context"] = ctx
        return [vals[k] for k in rx]

    key_writes = 0
    refuse_key_write = None      # ordinal of the link-key write to refuse with a transient error (fault injection by the check)

    def _key_write_refused(self):
        k = self.key_writes
        self.key_writes += 1
        return self.refuse_key_write is not None and k == self.refuse_key_write

    def _addOrUpdateKeyTableEntry(self, a):
        if self._key_write_refused():
            return [self.st("addOrUpdateKeyTableEntry", "fail")]
        eui = bytes(a["address"].serialize())
        key = bytes(a["keyData"].serialize())
        for i, (e, k) in self.key_table.items():
            if e == eui:
                self.key_table[i] = (eui, key)
                return [self.st("addOrUpdateKeyTableEntry")]
        for i in range(self._key_table_size()):
            if i not in self.key_table:
                self.key_table[i] = (eui, key)
                return [self.st("addOrUpdateKeyTableEntry")]
        return [self.st("addOrUpdateKeyTableEntry", "full")]

    def _importLinkKey(self, a):
        if self._key_write_refused():
            return [self.st("importLinkKey", "fail")]
        i = int(a["index"])
        if i >= self._key_table_size():
            return [self.st("importLinkKey", "range")]
        self.key_table[i] = (bytes(a["address"].serialize()), bytes(a["key"].serialize()))
        return [self.st("importLinkKey")]

    def _clearKeyTable(self, a):
        self.key_table = {}
        return [self.st("clearKeyTable")]

    def _getChildData(self, a):
        t = self.t
        from mc import gen_values as gv

        i = int(a["index"])
        rx = self.cls.COMMANDS["getChildData"][2]
        ent = self.children.get(i) if self.running else None
        if len(rx) == 4:    # v4..v6: flat fields
            if ent is None:
                return [self.st("getChildData", "not_joined"), 0xFFFF, t.EUI64(b"\xff" * 8), t.EmberNodeType.UNKNOWN_DEVICE]
            return [self.st("getChildData"), ent[1], t.EUI64(ent[0]), ent[2]]
        sty = list(rx.values())[1]
        if ent is None:
            return [self.st("getChildData", "not_joined"), self.blank(sty)]
        base = self.blank(sty)
        return [self.st("getChildData"), base.replace(eui64=t.EUI64(ent[0]), id=ent[1], type=ent[2])]

    def _setChildData(self, a):
        cd = a["child_data"]
        self.children[int(a["index"])] = (bytes(cd.eui64.serialize()), int(cd.id), cd.type)
        return [self.st("setChildData")]

    def _getMfgToken(self, a):
        t = self.t
        tok = a["tokenId"]
        if tok == t.EzspMfgTokenId.MFG_STRING:
            return [b"Acme" + b"\xff" * 12]
        if tok == t.EzspMfgTokenId.MFG_BOARD_NAME:
            return [b"simboard" + b"\xff" * 8]
        if tok == t.EzspMfgTokenId.MFG_CUSTOM_EUI_64:
            return [self.mfg_eui64 if self.mfg_eui64 is not None else b"\xff" * 8]
        return [b""]

    def _setMfgToken(self, a):
        t = self.t
        if a["tokenId"] == t.EzspMfgTokenId.MFG_CUSTOM_EUI_64 and self.mfg_eui64 is None:
            self.mfg_eui64 = bytes(a["tokenData"])
            return [self.st("setMfgToken")]
        return [self.st("setMfgToken", "fail")]

    def _token_is_eui(self, a):
        return int(a["token"]) == int(self.t.NV3KeyId.CREATOR_STACK_RESTORED_EUI64) and int(a["index"]) == 0

    def _getTokenData(self, a):
        t = self.t
        rx = self.cls.COMMANDS["getTokenData"][2]
        ok_ty = rx.fields[0].type
        ok = ok_ty.OK if ok_ty is t.sl_Status else ok_ty.SUCCESS
        bad = ok_ty.FAIL if ok_ty is t.sl_Status else ok_ty.ERR_FATAL
        if self.rewritable and self._token_is_eui(a):
            return [rx(status=ok, value=t.LVBytes32(self.nv3_eui64 if self.nv3_eui64 is not None else b"\xff" * 8))]
        if self.version >= 14:
            return [rx(status=bad, value=t.LVBytes32(b""))]   # the v14 response always carries the (empty) value
        return [rx(status=bad)]

    def _setTokenData(self, a):
        if self.rewritable and self._token_is_eui(a):
            self.nv3_eui64 = bytes(a["token_data"])
            return [self.st("setTokenData")]
        return [self.st("setTokenData", "fail")]

    def _getValue(self, a):
        t = self.t
        rx = self.cls.COMMANDS["getValue"][2]
        ok = rx["status"].OK if rx["status"] is t.sl_Status else rx["status"].SUCCESS
        if a["valueId"] == t.EzspValueId.VALUE_VERSION_INFO:
            return [ok, bytes([0x10, 0x01, 7, 4, 1, 0, 0])]
        return [ok, b"\x00"]

    def _setValue(self, a):
        t = self.t
        rx = self.cls.COMMANDS["setValue"][2]
        ok = rx["status"].OK if rx["status"] is t.sl_Status else rx["status"].SUCCESS
        bad = rx["status"].INVALID_STATE if rx["status"] is t.sl_Status else rx["status"].ERROR_INVALID_CALL
        if a["valueId"] in (t.EzspValueId.VALUE_NWK_FRAME_COUNTER, t.EzspValueId.VALUE_APS_FRAME_COUNTER):
            if self.running:
                return [bad]
            v = int.from_bytes(bytes(a["value"]), "little")
            if a["valueId"] == t.EzspValueId.VALUE_NWK_FRAME_COUNTER:
                self.nv_nwk_fc = v
            else:
                self.nv_aps_fc = v
        return [ok]

    def _getAddressTableRemoteNodeId(self, a):
        return [0xFFFF]

    def _getAddressTableRemoteEui64(self, a):
        return [self.t.EUI64(b"\xff" * 8)]

    def _getAddressTableInfo(self, a):
        t = self.t
        return [t.sl_Status.INVALID_INDEX, 0xFFFF, t.EUI64(b"\xff" * 8)]
