"""Real ``ControllerApplication`` on a real ``EZSP`` + per-version handler + FakeGateway + NcpSim."""
from __future__ import annotations

from mc.env import compat, ezspenv
from mc.vloop import VLoop


def make_app(loop: VLoop, version: int, *, extra_config=None):
    compat.install()
    import zigpy.config as zc

    import bellows.zigbee.application as A

    cfg = {zc.CONF_DEVICE: {zc.CONF_DEVICE_PATH: "/dev/ttyFAKE"}, zc.CONF_DATABASE: None}
    if extra_config:
        cfg.update(extra_config)
    app = A.ControllerApplication(cfg)
    ezsp, gw, ncp = ezspenv.make_stack(loop, version)
    app._ezsp = ezsp
    return app, ezsp, gw, ncp
