"""EZSP-level environment: independent header codec, fake Gateway, helpers that put a real
``EZSP`` object with a real per-version ``ProtocolHandler`` on top of it."""
from __future__ import annotations

import asyncio
import inspect

from mc.env.ashworld import patch_time
from mc.vloop import VLoop

VERSIONS = list(range(4, 15))


# --- header codec, written from UG100 (not from bellows) --------------------------------
# v4:      [seq, frame-control, frame-id]
# v5..v7:  [seq, frame-control, 0xFF, 0x00, frame-id]            ("legacy" extended header)
# v8+:     [seq, frame-control-lo, frame-control-hi, id-lo, id-hi]

def layout(version: int) -> str:
    if version <= 4:
        return "v4"
    if version <= 7:
        return "v5"
    return "v8"


def hdr_len(version: int) -> int:
    return 3 if layout(version) == "v4" else 5


def enc_request_hdr(version: int, seq: int, frame_id: int) -> bytes:
    lay = layout(version)
    if lay == "v4":
        return bytes([seq & 0xFF, 0x00, frame_id & 0xFF])
    if lay == "v5":
        return bytes([seq & 0xFF, 0x00, 0xFF, 0x00, frame_id & 0xFF])
    return bytes([seq & 0xFF, 0x00, 0x01, frame_id & 0xFF, (frame_id >> 8) & 0xFF])


def enc_response_hdr(version: int, seq: int, frame_id: int, callback: bool = False) -> bytes:
    fc = 0x90 if callback else 0x80
    lay = layout(version)
    if lay == "v4":
        return bytes([seq & 0xFF, fc, frame_id & 0xFF])
    if lay == "v5":
        return bytes([seq & 0xFF, fc, 0xFF, 0x00, frame_id & 0xFF])
    return bytes([seq & 0xFF, fc, 0x01, frame_id & 0xFF, (frame_id >> 8) & 0xFF])


def dec_hdr(version: int, data: bytes):
    """(seq, frame_id, payload) or None if the frame is too short / not in this layout."""
    lay = layout(version)
    if lay == "v4":
        if len(data) < 3:
            return None
        return data[0], data[2], data[3:]
    if len(data) < 5:
        return None
    if lay == "v5":
        if data[2] != 0xFF:
            return None
        return data[0], data[4], data[5:]
    if data[2] != 0x01:
        return None
    return data[0], data[3] | (data[4] << 8), data[5:]


def handler_class(version: int):
    from bellows.ezsp import EZSP

    return EZSP._BY_VERSION[version]


class RawWire(bytes):
    """A field the reference NCP encodes itself (layout taken from the EZSP reference, not from bellows' struct definitions)."""


def encode_values(schema, values) -> bytes:
    """Serialise a value list for a response / callback schema (dict or struct class)."""
    if isinstance(schema, dict):
        out = b""
        for (name, ty), v in zip(schema.items(), values):
            if isinstance(v, RawWire):
                out += bytes(v)
                continue
            out += ty(v).serialize() if not isinstance(v, ty) else v.serialize()
        return out
    if inspect.isclass(schema):
        if len(values) == 1 and isinstance(values[0], schema):
            return values[0].serialize()
        return schema(*values).serialize()
    return b""


class LinkError(Exception):
    """What a failed ASH send looks like to the EZSP layer."""


class FakeGateway:
    """Stands in for ``bellows.uart.Gateway`` (through ThreadsafeProxy) below ProtocolHandler."""

    def __init__(self, loop: VLoop):
        self.loop = loop
        self.sent: list[tuple[float, bytes]] = []
        self.fail_next = False
        self.hold = False            # keep send_data pending until release()
        self._held: list[asyncio.Future] = []
        self.closed = False
        self.resets = 0
        self.on_send = None
        self.reset_result = None     # None -> reset() completes; exception instance -> raises

    async def send_data(self, data: bytes) -> None:
        if self.fail_next:
            self.fail_next = False
            await asyncio.sleep(0)
            raise LinkError("ASH send failed")
        self.sent.append((self.loop.time(), bytes(data)))
        if self.on_send is not None:
            self.on_send(bytes(data))
        if self.hold:
            fut = self.loop.create_future()
            self._held.append(fut)
            await fut
        else:
            await asyncio.sleep(0)  # a real send always yields at least once (ACK round trip)

    def release(self):
        for f in self._held:
            if not f.done():
                f.set_result(None)
        self._held.clear()

    async def reset(self):
        self.resets += 1
        await asyncio.sleep(0)
        if self.reset_result is not None:
            raise self.reset_result

    def close(self):
        self.closed = True

    async def wait_for_startup_reset(self):
        await self.loop.create_future()


DEVICE_CONFIG = {"path": "/dev/ttyFAKE", "baudrate": 115200, "flow_control": None}


def make_ezsp(loop: VLoop, version: int, gw: FakeGateway | None = None):
    """A real EZSP object whose protocol handler is the real handler of ``version``, wired to a fake gateway."""
    from bellows.ezsp import EZSP

    patch_time(loop)
    gw = gw or FakeGateway(loop)
    ezsp = EZSP(dict(DEVICE_CONFIG))
    ezsp._gw = gw
    ezsp._ezsp_version = version
    ezsp._protocol = handler_class(version)(ezsp.handle_callback, gw)
    ezsp.start_ezsp()
    return ezsp, gw


class NcpSim:
    """Frame-level EZSP NCP behind a FakeGateway (or any transport that calls ``on_request``).

    ``handlers[name](args: dict) -> list of response values | None (no reply)``.  Unknown commands get
    ``default(name, args)`` (if set) or no reply.  Every request is logged as (time, name, args, raw).
    The sequence number of callbacks is that of the last answered command."""

    def __init__(self, loop, version, deliver):
        self.loop = loop
        self.version = version
        self.cls = handler_class(min(version, 14) if version in VERSIONS else 14)
        self.by_id = {cid: (name, tx, rx) for name, (cid, tx, rx) in self.cls.COMMANDS.items()}
        self.deliver = deliver
        self.handlers = {}
        self.default = None
        self.log = []
        self.unparsed = []
        self.last_seq = 0xFF            # callbacks carry the sequence number of the last answered command (none yet)
        self.framing = version          # version whose header layout the NCP currently speaks

    def on_request(self, data: bytes):
        import bellows.types as t

        hdr = dec_hdr(self.framing, data)
        if hdr is None:
            self.unparsed.append((self.loop.time(), data))
            return
        seq, fid, payload = hdr
        ent = self.by_id.get(fid)
        if ent is None:
            self.unparsed.append((self.loop.time(), data))
            return
        name, tx, rx = ent
        try:
            args, rest = t.deserialize_dict(payload, tx) if isinstance(tx, dict) else ({}, b"")
        except Exception:
            self.unparsed.append((self.loop.time(), data))
            return
        self.log.append((self.loop.time(), name, args, data))
        h = self.handlers.get(name)
        vals = h(args) if h is not None else (self.default(name, args) if self.default else None)
        if vals is None:
            return
        self.last_seq = seq
        if isinstance(vals, tuple) and len(vals) == 3 and vals[0] == "__raw__":
            # (marker, frame id, payload): answer under another frame ID, e.g. invalidCommand (0x58) + reason byte
            frame = enc_response_hdr(self.framing, seq, vals[1]) + bytes(vals[2])
        else:
            frame = enc_response_hdr(self.framing, seq, fid) + encode_values(rx, vals)
        self.deliver(frame)

    def emit(self, name, vals):
        cid, tx, rx = self.cls.COMMANDS[name]
        frame = enc_response_hdr(self.framing, self.last_seq, cid, callback=True) + encode_values(rx, vals)
        self.deliver(frame)


def make_stack(loop, version, deliver_soon=True):
    """EZSP + handler(version) + FakeGateway + NcpSim answering through EZSP.frame_received."""
    ezsp, gw = make_ezsp(loop, version)

    def deliver(frame):
        if deliver_soon:
            loop.call_soon(ezsp.frame_received, frame)
        else:
            ezsp.frame_received(frame)

    ncp = NcpSim(loop, version, deliver)
    gw.on_send = ncp.on_request
    return ezsp, gw, ncp
