"""Tunables the properties name but do not fix numerically ("the command timeout", "the reset timeout", "the configured number of
attempts", "the fixed number of spaced retries", "the tolerated maximum").  The oracles read them from the bellows module that
defines them, so a maintainer changing such a value does not raise an alarm while an off-by-one in the code that *uses* the value
still does.  Values the ASH specification fixes (acknowledgement timeout bounds 0.4 s / 3.2 s, frame layouts) are NOT read from
bellows: they stay hard-coded in the oracles.  If a constant has been renamed or is not a sane number the shipped default is used."""
from __future__ import annotations

import importlib


def get(module: str, name: str, default, kind=float, lo=None, hi=None):
    try:
        v = getattr(importlib.import_module(module), name)
        v = kind(v)
    except Exception:
        return default
    if (lo is not None and v < lo) or (hi is not None and v > hi):
        return default
    return v


def get_list(module: str, name: str, default, lo=None):
    try:
        v = [float(x) for x in getattr(importlib.import_module(module), name)]
    except Exception:
        return list(default)
    if not v or (lo is not None and any(x <= lo for x in v)):
        return list(default)
    return v


def ezsp_cmd_timeout() -> float:
    return get("bellows.ezsp.protocol", "EZSP_CMD_TIMEOUT", 10.0, float, lo=0.5, hi=600)


def ash_attempts() -> int:
    return get("bellows.ash", "ACK_TIMEOUTS", 5, int, lo=1, hi=20)


def reset_timeout() -> float:
    return get("bellows.uart", "RESET_TIMEOUT", 5.0, float, lo=0.5, hi=600)


def startup_wait() -> float:
    return get("bellows.ezsp", "NETWORK_COORDINATOR_STARTUP_RESET_WAIT", 1.0, float, lo=0.05, hi=60)


def network_ops_timeout() -> float:
    return get("bellows.ezsp", "NETWORK_OPS_TIMEOUT", 10.0, float, lo=0.5, hi=600)


def network_up_timeout() -> float:
    return get("bellows.zigbee.application", "NETWORK_UP_TIMEOUT_S", 10.0, float, lo=0.5, hi=600)


def aps_ack_timeout() -> float:
    return get("bellows.zigbee.application", "APS_ACK_TIMEOUT", 120.0, float, lo=1, hi=3600)


def retry_delays() -> list:
    return get_list("bellows.zigbee.application", "RETRY_DELAYS", [0.5, 1.0, 1.5], lo=0.0)


def watchdog_max_failures() -> int:
    return get("bellows.zigbee.application", "MAX_WATCHDOG_FAILURES", 4, int, lo=0, hi=100)
