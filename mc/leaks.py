"""Implementation-independent leak detection: futures that are still referenced from an object's book-keeping.

The properties state "no bookkeeping for the request remains" / "no listener or callback registered for it remains" in terms of
private containers the anchors name (``_pending``, ``_stack_status_listeners``, ``_callbacks``).  A behaviour-preserving refactor may
rename or regroup those; whatever shape the book-keeping takes, an entry for an operation that waits for an event holds (or is) an
``asyncio.Future``.  ``count_futures`` counts the futures reachable from ``root`` through plain containers and through objects
defined in bellows / zigpy.util, so a check can compare the count before an operation started with the count after it ended."""
from __future__ import annotations

import asyncio
import collections


LINKS = ("_ezsp", "_gw", "_protocol", "_application", "_device", "_parent", "_transport", "_ezsp_protocol")


def count_futures(root, depth: int = 5, skip=LINKS) -> int:
    seen = set()
    n = 0
    stack = [(root, 0)]
    while stack:
        x, d = stack.pop()
        if id(x) in seen:
            continue
        seen.add(id(x))
        if isinstance(x, asyncio.Future):
            n += 1
            continue
        if d >= depth or isinstance(x, (str, bytes, bytearray, int, float, bool, type(None), type)):
            continue
        if isinstance(x, dict):
            for k, v in list(x.items()):
                stack.append((k, d + 1))
                stack.append((v, d + 1))
        elif isinstance(x, (list, tuple, set, frozenset, collections.deque)):
            for v in list(x):
                stack.append((v, d + 1))
        else:
            mod = getattr(type(x), "__module__", "") or ""
            if mod.startswith("bellows") or mod.startswith("zigpy.util") or x is root:
                try:
                    attrs = dict(vars(x))
                except TypeError:
                    attrs = {}
                for name in getattr(type(x), "__slots__", ()) or ():
                    if isinstance(name, str) and hasattr(x, name):
                        attrs[name] = getattr(x, name)
                for k, v in attrs.items():
                    if k in skip:
                        continue        # (links up / down the stack: each layer has its own book-keeping and its own property)
                    stack.append((v, d + 1))
    return n
