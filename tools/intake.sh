#!/bin/sh
# usage: tools/intake.sh <wave dir under /tmp, e.g. w9> <prefix, e.g. W9> <property id ...>
# copies /tmp/<wave>/out-<id>/{a,b} to seeded/<prefix>-<id>-{a,b}, confirms each (baseline + demonstration both ways) and runs the
# quick check of the property against it in a scratch worktree.
W=$1; P=$2; shift 2
cd "$(dirname "$0")/.." || exit 2
for id in "$@"; do
  ids=""
  for x in a b; do
    src=/tmp/$W/out-$id/$x
    [ -f $src/patch.diff ] || { echo "$id-$x: no patch delivered"; continue; }
    dst=seeded/$P-$id-$x
    mkdir -p $dst && cp $src/patch.diff $src/meta.json $dst/ && cp $src/demo*.py $dst/ 2>/dev/null
    ids="$ids $P-$id-$x"
  done
  [ -n "$ids" ] || continue
  /venv/bin/python tools/verify_seeded.py $ids
  /venv/bin/python tools/matrix.py --own $ids
done
