#!/bin/sh
# usage: tools/intake_benign.sh <wave dir under /tmp> <prefix> <out json name> <property id ...>
W=$1; P=$2; OUT=$3; shift 3
cd "$(dirname "$0")/.." || exit 2
ids=""
for id in "$@"; do
  for x in a b; do
    src=/tmp/$W/out-$id/$x
    [ -f $src/patch.diff ] || { echo "$id-$x: no patch delivered"; continue; }
    dst=benign/$P-$id-$x
    mkdir -p $dst && cp $src/patch.diff $src/meta.json $dst/ && cp $src/diffcheck.py $dst/ 2>/dev/null
    ids="$ids $P-$id-$x"
  done
done
BENIGN_OUT=$OUT /venv/bin/python tools/benign.py $ids
