#!/venv/bin/python
"""Silence matrix: apply every behaviour-preserving change under benign/<id>/patch.diff to a scratch worktree of /repo, confirm the
pinned baseline still passes with it, and run the quick checks of the related properties against it.  Every check must exit 0.
Writes benign/MATRIX.json.   usage: benign.py [--all-checks] [ids...]"""
import json, os, subprocess, sys, shutil, xml.etree.ElementTree as ET

VERIF = os.path.dirname(os.path.dirname(os.path.abspath(__file__)))
sys.path.insert(0, os.path.join(VERIF, "tools"))
from matrix import GROUPS, GROUP_OF  # noqa

BASE = json.load(open("/root/.vp/BASELINE.json"))
STABLE = set(BASE["stable_pass"])
ALL = [f"C{i:02d}" for i in range(1, 21)]


def sh(cmd, **kw):
    return subprocess.run(cmd, shell=True, capture_output=True, text=True, **kw)


def passing(junit):
    out = set()
    for tc in ET.parse(junit).getroot().iter("testcase"):
        if not any(c.tag in ("failure", "error", "skipped") for c in tc):
            out.add(f"{tc.get('classname')}::{tc.get('name')}")
    return out


def main():
    args = sys.argv[1:]
    all_checks = "--all-checks" in args
    own_only = "--own" in args          # only the check of the change's own property (and skip the baseline run)
    args = [a for a in args if not a.startswith("--")]
    root = os.path.join(VERIF, "benign")
    ids = args or sorted(d for d in os.listdir(root) if os.path.isdir(os.path.join(root, d)))
    wt = "/tmp/bn-wt-%d" % os.getpid()
    sh(f"git -C /repo worktree add --detach {wt} HEAD")
    out_path = os.path.join(root, os.environ.get("BENIGN_OUT", "MATRIX.json"))
    matrix = json.load(open(out_path)) if os.path.exists(out_path) else {}
    head = sh("git -C /repo rev-parse --short HEAD").stdout.strip()
    try:
        for sid in ids:
            prop = ([x for x in sid.split("-") if x.startswith("C") and x[1:].isdigit()] or [json.load(open(os.path.join(root, sid, "meta.json")))["property"][:3]])[0]
            patch = os.path.join(root, sid, "patch.diff")
            sh(f"git -C {wt} checkout -- . && git -C {wt} clean -fdq")
            r = sh(f"git -C {wt} apply {patch}")
            row = {"property": prop, "repo_head": head, "applies": r.returncode == 0, "silent": [], "alarms": [], "errors": []}
            if r.returncode != 0:
                row["apply_error"] = r.stderr[-200:]
                matrix[sid] = row
                print(sid, "DOES NOT APPLY", flush=True)
                continue
            junit = wt + ".xml"
            env = dict(os.environ, PYTHONPATH=wt, PYTHONDONTWRITEBYTECODE="1")
            if own_only:
                missing = []
            else:
                sh(f"/venv/bin/python -m pytest -q -p no:cacheprovider --timeout=900 --continue-on-collection-errors --junitxml={junit}", cwd=wt, env=env)
                missing = sorted(STABLE - passing(junit))
                os.remove(junit)
            row["baseline_missing"] = missing
            checks = ALL if all_checks else ([prop] if own_only else [prop] + [c for c in GROUPS[GROUP_OF[prop]] if c != prop])
            for c in checks:
                env = dict(os.environ, VERIF_REPO=wt, VERIF_EVIDENCE_DIR=wt + "-ev", VERIF_REPLAY_DIR=wt + "-rp")
                p = subprocess.run(f"cd {VERIF} && ./check {c} --tier quick", shell=True, capture_output=True, text=True, env=env)
                if p.returncode == 0 and "VIOLATION property=" not in p.stdout:
                    row["silent"].append(c)
                elif p.returncode == 1:
                    keys = [l.strip()[4:] for l in p.stdout.splitlines() if l.strip().startswith("key=")][:4]
                    msgs = [l.strip() for l in p.stdout.splitlines() if l.startswith("  ") and not l.strip().startswith("key=")][:4]
                    row["alarms"].append({"check": c, "keys": keys, "messages": msgs})
                else:
                    row["errors"].append({"check": c, "exit": p.returncode, "tail": (p.stdout + p.stderr)[-600:]})
            matrix[sid] = row
            print(sid, "baseline_missing", len(missing), "ALARMS", [a["check"] for a in row["alarms"]], "ERRORS", [e["check"] for e in row["errors"]], flush=True)
            json.dump(matrix, open(out_path, "w"), indent=1, sort_keys=True)
    finally:
        sh(f"git -C /repo worktree remove --force {wt}")
        for d in (wt, wt + "-ev", wt + "-rp"):
            shutil.rmtree(d, ignore_errors=True)


if __name__ == "__main__":
    main()
