#!/venv/bin/python
"""Ad-hoc mutant runner: mut.py <file-in-repo> <old> <new> -- <check ids...>  (applies, runs quick checks, reverts)."""
import subprocess, sys
f, old, new = sys.argv[1:4]
checks = sys.argv[5:]
p = "/repo/" + f
s = open(p).read()
if s.count(old) < 1:
    print("PATTERN NOT FOUND"); sys.exit(2)
open(p, "w").write(s.replace(old, new, 1))
try:
    for c in checks:
        r = subprocess.run(f"cd /verif && ./check {c} --tier quick 2>&1 | grep -E 'VIOLATION|key=|^\\[{c}|internal|Error' | cut -c1-220 | head -8", shell=True, capture_output=True, text=True)
        print(r.stdout)
finally:
    subprocess.run("git -C /repo checkout -- .", shell=True)
