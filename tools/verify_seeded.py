#!/venv/bin/python
"""Confirm a seeded change: (1) it applies to /repo HEAD, (2) the pinned baseline (254 tests) still passes with it,
(3) its demonstration fails with it and passes without it.  Runs in a scratch worktree under /tmp which is removed afterwards.
usage: verify_seeded.py <id> [...]   -> writes seeded/<id>/verified.json"""
import json, os, subprocess, sys, shutil, xml.etree.ElementTree as ET

VERIF = os.path.dirname(os.path.dirname(os.path.abspath(__file__)))
BASE = json.load(open("/root/.vp/BASELINE.json"))
STABLE = set(BASE["stable_pass"])


def sh(cmd, cwd=None, env=None, timeout=1800):
    p = subprocess.run(cmd, shell=True, cwd=cwd, env=env, capture_output=True, text=True, timeout=timeout)
    return p.returncode, p.stdout + p.stderr


def passing(junit):
    out = set()
    for tc in ET.parse(junit).getroot().iter("testcase"):
        if not any(c.tag in ("failure", "error", "skipped") for c in tc):
            out.add(f"{tc.get('classname')}::{tc.get('name')}")
    return out


def demo(wt, demo_path, env):
    name = os.path.basename(demo_path)
    shutil.copy(demo_path, os.path.join(wt, "_" + name))
    src = open(demo_path).read()
    if "def test_" in src:
        rc, out = sh(f"/venv/bin/python -m pytest -q -p no:cacheprovider --timeout=600 -o asyncio_mode=auto _{name} 2>&1 | tail -5", cwd=wt, env=env)
        rc2, out2 = sh(f"/venv/bin/python -m pytest -q -p no:cacheprovider --timeout=600 -o asyncio_mode=auto _{name} >/dev/null 2>&1; echo $?", cwd=wt, env=env)
        rc = int(out2.strip().splitlines()[-1])
    else:
        rc, out = sh(f"/venv/bin/python _{name} 2>&1 | tail -5", cwd=wt, env=env)
        rc2, out2 = sh(f"/venv/bin/python _{name} >/dev/null 2>&1; echo $?", cwd=wt, env=env)
        rc = int(out2.strip().splitlines()[-1])
    os.remove(os.path.join(wt, "_" + name))
    return rc, out.strip()[-400:]


def verify(sid):
    d = os.path.join(VERIF, "seeded", sid)
    wt = f"/tmp/vs-{sid}"
    sh(f"git -C /repo worktree remove --force {wt}")
    rc, out = sh(f"git -C /repo worktree add --detach {wt} HEAD")
    res = {"id": sid, "repo_head": sh("git -C /repo rev-parse --short HEAD")[1].strip()}
    env = dict(os.environ, PYTHONPATH=wt, PYTHONDONTWRITEBYTECODE="1")
    try:
        demos = [f for f in sorted(os.listdir(d)) if f.startswith("demo") and f.endswith(".py")]
        rc0, o0 = demo(wt, os.path.join(d, demos[0]), env)
        res["demo_without_patch"] = {"exit": rc0, "tail": o0}
        rc, out = sh(f"git apply {d}/patch.diff", cwd=wt)
        res["applies"] = rc == 0
        if rc != 0:
            res["apply_error"] = out[-300:]
            return res
        rc1, o1 = demo(wt, os.path.join(d, demos[0]), env)
        res["demo_with_patch"] = {"exit": rc1, "tail": o1}
        junit = f"/tmp/vs-{sid}.xml"
        sh(f"/venv/bin/python -m pytest -ra -q -p no:cacheprovider --timeout=900 --continue-on-collection-errors --junitxml={junit}", cwd=wt, env=env)
        ok = passing(junit)
        os.remove(junit)
        res["baseline_missing"] = sorted(STABLE - ok)
        res["baseline_ok"] = not res["baseline_missing"]
        res["confirmed"] = bool(res["baseline_ok"] and rc0 == 0 and rc1 != 0)
    finally:
        sh(f"git -C /repo worktree remove --force {wt}")
        shutil.rmtree(wt, ignore_errors=True)
    return res


if __name__ == "__main__":
    for sid in sys.argv[1:]:
        r = verify(sid)
        json.dump(r, open(os.path.join(VERIF, "seeded", sid, "verified.json"), "w"), indent=1)
        print(sid, "confirmed" if r.get("confirmed") else "NOT CONFIRMED", {k: v for k, v in r.items() if k in ("applies", "baseline_ok")},
              "demo clean exit", r.get("demo_without_patch", {}).get("exit"), "patched exit", r.get("demo_with_patch", {}).get("exit"), flush=True)
