#!/venv/bin/python
"""Per-wave summary of seeded/MATRIX-own.json (own check) and seeded/MATRIX.json (neighbouring checks) as a markdown table."""
import json, os, collections

V = os.path.dirname(os.path.dirname(os.path.abspath(__file__)))
own = json.load(open(os.path.join(V, "seeded", "MATRIX-own.json")))
grp = json.load(open(os.path.join(V, "seeded", "MATRIX.json")))
waves = collections.OrderedDict()
for sid in sorted(os.listdir(os.path.join(V, "seeded"))):
    if not os.path.isdir(os.path.join(V, "seeded", sid)) or not os.path.exists(os.path.join(V, "seeded", sid, "meta.json")):
        continue
    if json.load(open(os.path.join(V, "seeded", sid, "meta.json"))).get("superseded"):
        continue
    w = sid.split("-")[0] if sid[0] == "W" else "W1"
    row = waves.setdefault(w, {"n": 0, "own": 0, "other": [], "missed": []})
    row["n"] += 1
    r = own.get(sid)
    if r and any(c["check"] == r["property"] for c in r["caught_by"]):
        row["own"] += 1
    else:
        g = grp.get(sid, {})
        others = [c["check"] for c in g.get("caught_by", []) if c["check"] != g.get("property")]
        (row["other"] if others else row["missed"]).append(sid + (" (" + "/".join(others) + ")" if others else ""))
print("| wave | changes | reported by the own check | only by neighbouring checks | not reported |")
print("|---|---|---|---|---|")
for w, r in waves.items():
    print(f"| {w} | {r['n']} | {r['own']} | {', '.join(r['other']) or '-'} | {', '.join(r['missed']) or '-'} |")
