#!/venv/bin/python
"""Systematic first-order mutation sweep of the bellows code the properties are anchored in.

This is a test of the *checks* (does a small semantic change that the repository's own tests do not notice get
reported?), not a verification technique: nothing here decides a property.

  mutsweep.py gen                    enumerate mutants             -> $MS/mutants.jsonl
  mutsweep.py tests  [-j N]          run the pinned baseline suite -> $MS/tests.jsonl   (survivor = no baseline test newly fails)
  mutsweep.py checks [-j N] [ids..]  run the mapped quick checks against every survivor (stops at the first that reports)
                                                                   -> $MS/checks.jsonl
  mutsweep.py summary                write seeded/MUTSWEEP.json (counts + the list of survivors no check reported)

Scratch worktrees live under $MS (default /tmp/ms) and are removed at the end of each phase.
"""
from __future__ import annotations

import ast
import json
import os
import subprocess
import sys
import shutil
import time
from concurrent.futures import ThreadPoolExecutor

VERIF = os.path.dirname(os.path.dirname(os.path.abspath(__file__)))
MS = os.environ.get("MS", "/tmp/ms")
REPO = "/repo"

# file -> ordered list of checks to try (cheapest / most specific first)
FILES = {
    "bellows/ash.py": ["C03", "C04", "C05", "C11", "C10", "C01", "C02", "C09"],
    "bellows/uart.py": ["C11", "C10", "C09"],
    "bellows/thread.py": ["C20"],
    "bellows/multicast.py": ["C15"],
    "bellows/ezsp/__init__.py": ["C16", "C17", "C10", "C09", "C06", "C14", "C12"],
    "bellows/ezsp/protocol.py": ["C06", "C08", "C07", "C18", "C17", "C10", "C09"],
    "bellows/zigbee/application.py": ["C19", "C13", "C12", "C14", "C15", "C17", "C10"],
    "bellows/zigbee/util.py": ["C14", "C13", "C12"],
    "bellows/types/named.py": ["C18", "C07"],
}
for v in (4, 5, 6, 7, 8, 9, 10, 11, 12, 13, 14):
    FILES[f"bellows/ezsp/v{v}/__init__.py"] = ["C14", "C12", "C13", "C07", "C17", "C09", "C19"]

# (file regex, function regex) -> checks; first match wins; [] = the function is outside every property's anchors
FUNC_MAP = [
    (r"ash\.py", r"(Ack|Nak|Data|Rst|RStack|Error|Ash)Frame\.", ["C03", "C04", "C02"]),
    (r"ash\.py", r"_process_buffer|data_received$|_unstuff|_stuff", ["C02", "C03", "C04"]),
    (r"ash\.py", r"_send_data_frame|_change_ack_timeout|_handle_ack|_enter_failed_state|error_frame_received|send_data", ["C05", "C04", "C01"]),
    (r"ash\.py", r"data_frame_received|frame_received|rstack_frame|rst_frame", ["C04", "C05", "C11", "C01"]),
    (r"ash\.py", r".", ["C10", "C11", "C05"]),
    (r"uart\.py", r".", ["C11", "C10", "C09"]),
    (r"thread\.py", r".", ["C20"]),
    (r"multicast\.py", r".", ["C15"]),
    (r"ezsp/__init__\.py", r"write_config", ["C16", "C09"]),
    (r"ezsp/__init__\.py", r"_list_command|formNetwork|leaveNetwork|stack_status|wait_for_stack|add_callback|remove_callback|handle_callback", ["C17", "C06"]),
    (r"ezsp/__init__\.py", r"frame_received", ["C08", "C06", "C10"]),
    (r"ezsp/__init__\.py", r"write_custom_eui64|can_", ["C14"]),
    (r"ezsp/__init__\.py", r"set_source_routing|get_board_info|update_policies", []),
    (r"ezsp/__init__\.py", r".", ["C09", "C10", "C06"]),
    (r"ezsp/protocol\.py", r"update_policies", []),
    (r"ezsp/protocol\.py", r".", ["C06", "C08", "C07"]),
    (r"ezsp/v\d+/__init__\.py", r"_ezsp_frame", ["C08", "C07", "C06"]),
    (r"ezsp/v\d+/__init__\.py", r"set_extended_timeout|send_|source_route", ["C12"]),
    (r"ezsp/v\d+/__init__\.py", r"pre_permit|add_transient|read_counters|factory_reset", []),
    (r"ezsp/v\d+/__init__\.py", r".", ["C14"]),
    (r"application\.py", r"_handle_frame_sent|send_packet|_get_free_buffers", ["C12"]),
    (r"application\.py", r"_handle_frame|ezsp_callback_handler|_handle_tc_join|_reset_mfg_id|handle_join|handle_leave", ["C13", "C12"]),
    (r"application\.py", r"_watchdog", ["C19"]),
    (r"application\.py", r"_ensure_network_running", ["C17", "C14"]),
    (r"application\.py", r"load_network_info|write_network_info|reset_network_info|_reset$", ["C14"]),
    (r"application\.py", r"__init__", ["C12", "C13", "C19"]),
    (r"application\.py", r".", []),
    (r"util\.py", r".", ["C14"]),
    (r"named\.py", r".", ["C18"]),
]


def checks_for(m):
    import re

    for fre, fnre, checks in FUNC_MAP:
        if re.search(fre, m["file"]) and re.search(fnre, m["func"]):
            return checks
    return FILES[m["file"]]


CMP = {ast.Lt: "<=", ast.LtE: "<", ast.Gt: ">=", ast.GtE: ">", ast.Eq: "!=", ast.NotEq: "==", ast.Is: "is not", ast.IsNot: "is",
       ast.In: "not in", ast.NotIn: "in"}
BIN = {ast.Add: "-", ast.Sub: "+", ast.BitAnd: "|", ast.BitOr: "&", ast.LShift: ">>", ast.RShift: "<<", ast.Mult: "//", ast.FloorDiv: "*",
       ast.Mod: "//"}


def sh(cmd, **kw):
    return subprocess.run(cmd, shell=True, capture_output=True, text=True, **kw)


class Src:
    def __init__(self, text):
        self.text = text
        self.lines = text.splitlines(keepends=True)
        self.off = [0]
        for l in self.lines:
            self.off.append(self.off[-1] + len(l.encode()))
        self.bytes = text.encode()

    def pos(self, lineno, col):
        return self.off[lineno - 1] + col

    def span(self, node):
        return self.pos(node.lineno, node.col_offset), self.pos(node.end_lineno, node.end_col_offset)

    def splice(self, a, b, new):
        return (self.bytes[:a] + new.encode() + self.bytes[b:]).decode()

    def get(self, a, b):
        return self.bytes[a:b].decode()


def is_log_call(node):
    if isinstance(node, ast.Expr):
        node = node.value
    if isinstance(node, ast.Await):
        node = node.value
    if isinstance(node, ast.Call):
        f = node.func
        if isinstance(f, ast.Attribute) and isinstance(f.value, ast.Name) and f.value.id in ("LOGGER", "_LOGGER", "logging", "warnings"):
            return True
        if isinstance(f, ast.Attribute) and f.attr in ("debug", "info", "warning", "error", "exception", "log") and "LOG" in ast.dump(f.value).upper():
            return True
    return False


def gen_file(path):
    text = open(os.path.join(REPO, path)).read()
    src = Src(text)
    tree = ast.parse(text)
    out = []

    def add(func, node, op, a, b, new):
        old = src.get(a, b)
        if old == new:
            return
        mutated = src.splice(a, b, new)
        try:
            compile(mutated, path, "exec")
        except SyntaxError:
            return
        out.append({"file": path, "func": func, "line": node.lineno, "op": op, "a": a, "b": b, "old": old, "new": new})

    def visit_func(fn, qual):
        skip_names = {"__repr__", "__str__"}
        if fn.name in skip_names:
            return
        doc = ast.get_docstring(fn)
        body = fn.body[1:] if doc is not None and isinstance(fn.body[0], ast.Expr) else fn.body
        for stmt in body:
            for node in ast.walk(stmt):
                if isinstance(node, (ast.FunctionDef, ast.AsyncFunctionDef)) and node is not fn:
                    continue
                mutate(node, qual)

    def in_log(node, parents):
        return any(is_log_call(p) for p in parents)

    parent = {}
    for p in ast.walk(tree):
        for c in ast.iter_child_nodes(p):
            parent[c] = p

    def ancestors(n):
        while n in parent:
            n = parent[n]
            yield n

    def mutate(node, qual):
        anc = list(ancestors(node))
        if any(is_log_call(a) for a in anc) or is_log_call(node):
            return
        if any(isinstance(a, (ast.JoinedStr, ast.Assert)) for a in anc):
            return
        if any(isinstance(a, (ast.arguments,)) for a in anc):  # defaults / annotations
            return
        if any(isinstance(a, ast.AnnAssign) and a.annotation is not None and node is not a.value and a.value is not None and
               node in ast.walk(a.annotation) for a in anc):
            return
        if isinstance(node, ast.Compare) and len(node.ops) == 1 and type(node.ops[0]) in CMP:
            a = src.span(node.left)[1]
            b = src.span(node.comparators[0])[0]
            add(qual, node, "cmp", a, b, " " + CMP[type(node.ops[0])] + " ")
        elif isinstance(node, ast.BinOp) and type(node.op) in BIN:
            if isinstance(node.op, ast.Mod) and isinstance(node.left, ast.Constant) and isinstance(node.left.value, str):
                return
            a = src.span(node.left)[1]
            b = src.span(node.right)[0]
            between = src.get(a, b)
            if "(" in between or ")" in between:
                return
            add(qual, node, "bin", a, b, " " + BIN[type(node.op)] + " ")
        elif isinstance(node, ast.BoolOp) and len(node.values) == 2:
            a = src.span(node.values[0])[1]
            b = src.span(node.values[1])[0]
            between = src.get(a, b)
            if "(" in between or ")" in between:
                return
            add(qual, node, "bool", a, b, " or " if isinstance(node.op, ast.And) else " and ")
        elif isinstance(node, ast.Constant) and not any(isinstance(a, ast.Subscript) and a.slice is node and False for a in anc):
            a, b = src.span(node)
            if isinstance(node.value, bool):
                add(qual, node, "const", a, b, "False" if node.value else "True")
            elif isinstance(node.value, int):
                add(qual, node, "const+1", a, b, repr(node.value + 1))
                if node.value != 0 or True:
                    add(qual, node, "const-1", a, b, repr(node.value - 1))
            elif isinstance(node.value, float):
                add(qual, node, "constx2", a, b, repr(node.value * 2))
                add(qual, node, "const/2", a, b, repr(node.value / 2))
        elif isinstance(node, ast.UnaryOp) and isinstance(node.op, ast.Not):
            a, b = src.span(node)
            oa, ob = src.span(node.operand)
            add(qual, node, "not-", a, b, "(" + src.get(oa, ob) + ")")
        if isinstance(node, (ast.If, ast.While)) and not (isinstance(node.test, ast.Constant)):
            a, b = src.span(node.test)
            add(qual, node, "neg-test", a, b, "(not (" + src.get(a, b) + "))")
        if isinstance(node, ast.IfExp):
            a, b = src.span(node.test)
            add(qual, node, "neg-test", a, b, "(not (" + src.get(a, b) + "))")
        # statement deletion
        if isinstance(node, ast.Expr) and isinstance(node.value, (ast.Call, ast.Await)) and not is_log_call(node):
            a, b = src.span(node)
            add(qual, node, "del-stmt", a, b, "pass")
        elif isinstance(node, ast.AugAssign):
            a, b = src.span(node)
            add(qual, node, "del-stmt", a, b, "pass")
        elif isinstance(node, ast.Assign) and all(isinstance(t, (ast.Attribute, ast.Subscript)) for t in node.targets):
            a, b = src.span(node)
            add(qual, node, "del-stmt", a, b, "pass")
        elif isinstance(node, (ast.Continue, ast.Break)):
            a, b = src.span(node)
            add(qual, node, "loopctl", a, b, "break" if isinstance(node, ast.Continue) else "continue")
        elif isinstance(node, ast.Return):
            p = parent.get(node)
            if not isinstance(p, (ast.FunctionDef, ast.AsyncFunctionDef)) or p.body[-1] is not node:
                if node.value is None:
                    a, b = src.span(node)
                    add(qual, node, "del-return", a, b, "pass")
        elif isinstance(node, ast.Raise) and node.exc is not None:
            pass
        elif isinstance(node, ast.Delete):
            a, b = src.span(node)
            add(qual, node, "del-stmt", a, b, "pass")

    def walk_defs(body, prefix):
        for n in body:
            if isinstance(n, (ast.FunctionDef, ast.AsyncFunctionDef)):
                visit_func(n, prefix + n.name)
                walk_defs(n.body, prefix + n.name + ".")
            elif isinstance(n, ast.ClassDef):
                walk_defs(n.body, prefix + n.name + ".")

    walk_defs(tree.body, "")
    # de-duplicate identical (a, b, new)
    seen = set()
    res = []
    for m in out:
        k = (m["a"], m["b"], m["new"])
        if k not in seen:
            seen.add(k)
            res.append(m)
    return res


def cmd_gen():
    os.makedirs(MS, exist_ok=True)
    n = 0
    with open(os.path.join(MS, "mutants.jsonl"), "w") as f:
        for path in FILES:
            if not os.path.exists(os.path.join(REPO, path)):
                continue
            ms = gen_file(path)
            if path == "bellows/types/named.py":
                ms = [m for m in ms if "status" in m["func"].lower() or "Status" in m["func"]]
            for m in ms:
                m["id"] = f"M{n:05d}"
                n += 1
                f.write(json.dumps(m) + "\n")
            print(path, len(ms))
    print("total", n)


def load(name):
    p = os.path.join(MS, name)
    if not os.path.exists(p):
        return []
    return [json.loads(l) for l in open(p) if l.strip()]


def apply_mutant(wt, m):
    p = os.path.join(wt, m["file"])
    text = open(os.path.join(REPO, m["file"])).read()
    s = Src(text)
    assert s.get(m["a"], m["b"]) == m["old"], "repo changed since gen"
    open(p, "w").write(s.splice(m["a"], m["b"], m["new"]))


def restore(wt, m):
    shutil.copy(os.path.join(REPO, m["file"]), os.path.join(wt, m["file"]))


def make_worktrees(n, tag):
    wts = []
    for i in range(n):
        wt = os.path.join(MS, f"wt-{tag}-{i}")
        sh(f"git -C {REPO} worktree remove --force {wt}")
        shutil.rmtree(wt, ignore_errors=True)
        r = sh(f"git -C {REPO} worktree add --detach {wt} HEAD")
        assert r.returncode == 0, r.stderr
        wts.append(wt)
    return wts


def drop_worktrees(wts):
    for wt in wts:
        sh(f"git -C {REPO} worktree remove --force {wt}")
        shutil.rmtree(wt, ignore_errors=True)
        shutil.rmtree(wt + "-ev", ignore_errors=True)
        shutil.rmtree(wt + "-rp", ignore_errors=True)
    sh(f"git -C {REPO} worktree prune")


def baseline_deselect():
    base = json.load(open("/root/.vp/BASELINE.json"))
    args = ["--ignore=tests/test_application.py"]
    for t in base["always_fail"]:
        if t.startswith("tests.test_application"):
            continue
        mod, name = t.split("::")
        args.append(f"--deselect={mod.replace('.', '/')}.py::{name}")
    return " ".join(f"'{a}'" for a in args)


def cmd_tests(jobs):
    muts = load("mutants.jsonl")
    done = {r["id"] for r in load("tests.jsonl")}
    todo = [m for m in muts if m["id"] not in done]
    print("todo", len(todo), "jobs", jobs, flush=True)
    wts = make_worktrees(jobs, "t")
    free = list(wts)
    desel = baseline_deselect()
    outf = open(os.path.join(MS, "tests.jsonl"), "a")

    def work(m):
        wt = free.pop()
        try:
            apply_mutant(wt, m)
            env = dict(os.environ, PYTHONPATH=wt, PYTHONDONTWRITEBYTECODE="1")
            t0 = time.time()
            try:
                r = subprocess.run(f"/venv/bin/python -m pytest -x -q -p no:cacheprovider --timeout=60 {desel} 2>&1 | tail -3", shell=True, cwd=wt,
                                   env=env, capture_output=True, text=True, timeout=400)
                tail = r.stdout.strip().splitlines()[-1] if r.stdout.strip() else ""
                survived = (" passed" in tail) and ("failed" not in tail) and ("error" not in tail)
            except subprocess.TimeoutExpired:
                tail, survived = "TIMEOUT", False
                sh("pkill -f '[w]t-t-%s'" % wt.rsplit("-", 1)[1])
            rec = {"id": m["id"], "survived": survived, "tail": tail[-120:], "secs": round(time.time() - t0, 1)}
            outf.write(json.dumps(rec) + "\n")
            outf.flush()
            return rec
        finally:
            restore(wt, m)
            free.append(wt)

    try:
        with ThreadPoolExecutor(jobs) as ex:
            k = 0
            for rec in ex.map(work, todo):
                k += 1
                if k % 50 == 0:
                    print(k, "/", len(todo), flush=True)
    finally:
        drop_worktrees(wts)


def cmd_checks(jobs, only):
    muts = {m["id"]: m for m in load("mutants.jsonl")}
    surv = [r["id"] for r in load("tests.jsonl") if r["survived"]]
    done = {r["id"] for r in load("checks.jsonl")}
    todo = [muts[i] for i in surv if i not in done and (not only or i in only or muts[i]["file"] in only)]
    print("survivors", len(surv), "todo", len(todo), flush=True)
    wts = make_worktrees(jobs, "c")
    free = list(wts)
    outf = open(os.path.join(MS, "checks.jsonl"), "a")

    def work(m):
        wt = free.pop()
        try:
            apply_mutant(wt, m)
            rec = {"id": m["id"], "caught_by": None, "silent": [], "errors": []}
            rec["mapped"] = checks_for(m)
            for c in rec["mapped"]:
                env = dict(os.environ, VERIF_REPO=wt, VERIF_EVIDENCE_DIR=wt + "-ev", VERIF_REPLAY_DIR=wt + "-rp", VERIF_FAILFAST="1", VERIF_WORKERS=os.environ.get("MS_PROCS", "4"),
                           )
                try:
                    p = subprocess.run(f"cd {VERIF} && ./check {c} --tier quick", shell=True, capture_output=True, text=True, env=env, timeout=1500)
                except subprocess.TimeoutExpired:
                    rec["errors"].append({"check": c, "exit": "timeout"})
                    continue
                if p.returncode == 1 and "VIOLATION property=" in p.stdout:
                    keys = [l.strip()[4:] for l in p.stdout.splitlines() if l.strip().startswith("key=")][:2]
                    rec["caught_by"] = c
                    rec["keys"] = keys
                    break
                elif p.returncode == 0:
                    rec["silent"].append(c)
                else:
                    rec["errors"].append({"check": c, "exit": p.returncode, "tail": (p.stdout + p.stderr)[-300:]})
            outf.write(json.dumps(rec) + "\n")
            outf.flush()
            return rec
        finally:
            restore(wt, m)
            free.append(wt)

    try:
        with ThreadPoolExecutor(jobs) as ex:
            k = 0
            for rec in ex.map(work, todo):
                k += 1
                print(k, "/", len(todo), rec["id"], rec["caught_by"], [e["check"] for e in rec["errors"]], flush=True)
    finally:
        drop_worktrees(wts)


def cmd_summary():
    muts = {m["id"]: m for m in load("mutants.jsonl")}
    tests = {r["id"]: r for r in load("tests.jsonl")}
    checks = {r["id"]: r for r in load("checks.jsonl")}
    surv = [i for i, r in tests.items() if r["survived"]]
    caught = [i for i in surv if i in checks and checks[i]["caught_by"]]
    uncaught = [i for i in surv if i in checks and not checks[i]["caught_by"]]
    by_file = {}
    for i in surv:
        f = muts[i]["file"]
        d = by_file.setdefault(f, {"survive_tests": 0, "reported_by_a_check": 0, "not_reported": 0, "not_run": 0})
        d["survive_tests"] += 1
        if i in checks:
            d["reported_by_a_check" if checks[i]["caught_by"] else "not_reported"] += 1
        else:
            d["not_run"] += 1
    out = {
        "repo_head": sh(f"git -C {REPO} rev-parse --short HEAD").stdout.strip(),
        "mutants": len(muts), "tested": len(tests), "survive_baseline_tests": len(surv),
        "reported_by_a_check": len(caught), "not_reported": len(uncaught), "by_file": by_file,
        "not_reported_list": [
            {k: muts[i][k] for k in ("id", "file", "func", "line", "op", "old", "new")} | {"errors": checks[i]["errors"], "note": ""} for i in uncaught
        ],
    }
    json.dump(out, open(os.path.join(VERIF, "seeded", "MUTSWEEP.json"), "w"), indent=1)
    print(json.dumps({k: v for k, v in out.items() if k != "not_reported_list"}, indent=1))


if __name__ == "__main__":
    cmd = sys.argv[1]
    jobs = 8
    args = sys.argv[2:]
    if "-j" in args:
        i = args.index("-j")
        jobs = int(args[i + 1])
        del args[i:i + 2]
    if cmd == "gen":
        cmd_gen()
    elif cmd == "tests":
        cmd_tests(jobs)
    elif cmd == "checks":
        cmd_checks(jobs, set(args))
    elif cmd == "summary":
        cmd_summary()
