#!/venv/bin/python
"""Detection matrix: apply every seeded change to a scratch worktree of /repo, run the quick checks of the related
properties against it (VERIF_REPO), record which checks report a violation.  Writes seeded/MATRIX.json.
usage: matrix.py [ids...]"""
import json, os, subprocess, sys, shutil

VERIF = os.path.dirname(os.path.dirname(os.path.abspath(__file__)))
GROUPS = {
    "ash": ["C01", "C02", "C03", "C04", "C05", "C09", "C10", "C11"],
    "ezsp": ["C06", "C07", "C08", "C09", "C10", "C16", "C17"],
    "app": ["C12", "C13", "C14", "C15", "C17", "C19"],
    "thread": ["C20"],
    "types": ["C18", "C07", "C12", "C16"],
}
GROUP_OF = {"C01": "ash", "C02": "ash", "C03": "ash", "C04": "ash", "C05": "ash", "C11": "ash", "C06": "ezsp", "C07": "ezsp", "C08": "ezsp",
            "C09": "ezsp", "C10": "ash", "C16": "ezsp", "C17": "ezsp", "C12": "app", "C13": "app", "C14": "app", "C15": "app", "C19": "app",
            "C18": "types", "C20": "thread"}


def sh(cmd, **kw):
    return subprocess.run(cmd, shell=True, capture_output=True, text=True, **kw)


def main():
    own_only = "--own" in sys.argv
    if own_only:
        sys.argv.remove("--own")
    ids = sys.argv[1:] or sorted(d for d in os.listdir(os.path.join(VERIF, "seeded")) if os.path.isdir(os.path.join(VERIF, "seeded", d)))
    wt = "/tmp/mx-wt" + ("-own" if own_only else "") + "-%d" % os.getpid()     # one scratch worktree per run: runs may overlap
    sh(f"git -C /repo worktree remove --force {wt}")
    sh(f"git -C /repo worktree add --detach {wt} HEAD")
    out_path = os.path.join(VERIF, "seeded", "MATRIX-own.json" if own_only else "MATRIX.json")
    head = sh("git -C /repo rev-parse --short HEAD").stdout.strip()
    try:
        for sid in ids:
            prop = [x for x in sid.split("-") if x.startswith("C") and x[1:].isdigit()][0]
            patch = os.path.join(VERIF, "seeded", sid, "patch.diff")
            sh(f"git -C {wt} checkout -- . && git -C {wt} clean -fdq")
            r = sh(f"git -C {wt} apply {patch}")
            row = {"property": prop, "repo_head": head, "applies": r.returncode == 0, "caught_by": [], "silent": [], "errors": []}
            if r.returncode != 0:
                row["apply_error"] = r.stderr[-200:]
                print(sid, "DOES NOT APPLY", row["apply_error"], flush=True)
                continue
            checks = [prop] + ([] if own_only else [c for c in GROUPS[GROUP_OF[prop]] if c != prop])
            for c in checks:
                env = dict(os.environ, VERIF_REPO=wt, VERIF_EVIDENCE_DIR=wt + "-ev", VERIF_REPLAY_DIR=wt + "-rp")
                p = subprocess.run(f"cd {VERIF} && ./check {c} --tier quick", shell=True, capture_output=True, text=True, env=env)
                if p.returncode == 1 and "VIOLATION property=" in p.stdout:
                    keys = [l.strip()[4:] for l in p.stdout.splitlines() if l.strip().startswith("key=")][:3]
                    row["caught_by"].append({"check": c, "keys": keys})
                elif p.returncode == 0:
                    row["silent"].append(c)
                else:
                    row["errors"].append({"check": c, "exit": p.returncode, "tail": (p.stdout + p.stderr)[-300:]})
            print(sid, "caught by", [x["check"] for x in row["caught_by"]], "errors", [e["check"] for e in row["errors"]], flush=True)
            # re-read before writing: another run may have added rows meanwhile
            matrix = json.load(open(out_path)) if os.path.exists(out_path) else {}
            matrix[sid] = row
            json.dump(matrix, open(out_path, "w"), indent=1, sort_keys=True)
    finally:
        sh(f"git -C /repo worktree remove --force {wt}")
        shutil.rmtree(wt, ignore_errors=True)


if __name__ == "__main__":
    main()
